#!/bin/sh
# Build the fact-extraction driver and warm the fact cache (offline).
set -e
cd "$(dirname "$0")"
export CARGO_NET_OFFLINE=true
(cd sa/seedfacts && cargo build --release --offline)
python3 sa/facts.py /repo
