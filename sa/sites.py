"""R02.4 — census of the remaining panic-capable value operations (indexing,
usize arithmetic) with a discharge by the comparisons that dominate them.
Sites the analysis cannot discharge are reported as unproven and never alarm;
the alarming counterparts are the guard tables R11.x/R13.1."""
import mir
import guards
from framework import RuleResult


def dominating_relations(f, bb, limit=40):
    """All comparison relations that hold on the way to bb (walk the
    dominator chain)."""
    rels = []
    idom = f.idoms()
    cur = bb
    steps = 0
    while cur in idom and cur != 0 and steps < 400:
        steps += 1
        nxt = idom[cur]
        if f.term(nxt)["k"] == "switch":
            info = f.switch_info(nxt)
            if info and info["kind"] == "bool":
                rv = f.bool_def(info["on"])
                if rv and rv[0] == "bin" and rv[1] in guards.NEG:
                    t_true = info["otherwise"]
                    t_false = None
                    for v, tgt in info["cases"]:
                        if v is True:
                            t_true = tgt
                        if v is False:
                            t_false = tgt
                    if t_false is None:
                        t_false = info["otherwise"]
                    on_true = f.dominates(t_true, bb)
                    on_false = f.dominates(t_false, bb)
                    if on_true != on_false:
                        op = rv[1] if on_true else guards.NEG[rv[1]]
                        rels.append((op, guards.var_of(f, rv[2]), guards.var_of(f, rv[3])))
        cur = nxt
        if len(rels) >= limit:
            break
    return rels


def _is_loop_index(f, term):
    if term[0] == "call":
        c = f.call_at(term[2])
        if c is not None and (c.declared or "") == "std::iter::Iterator::next":
            a0 = c.argtys[0] if c.argtys else ""
            if "std::iter::Enumerate<" in a0 or "std::ops::Range<usize>" in a0:
                return True
    if term[0] == "field" and term[1][0] == "call":
        return _is_loop_index(f, term[1])
    return False


def rule_sites(ctx, rule_id):
    prog = ctx.prog
    r = RuleResult(rule_id, "census of index / usize-arithmetic sites with "
                   "the guards that dominate them",
                   "an unguarded index or subtraction on user-controlled "
                   "sizes aborts the interpreter")
    total = 0
    for f in prog.hand_fns():
        if f.from_expansion or f.module == "" and f.path not in ("join_strings",):
            pass
        if f.from_expansion:
            continue
        for c in f.calls():
            d = c.declared or ""
            if d not in ("std::ops::Index::index", "std::ops::IndexMut::index_mut"):
                continue
            a0 = c.argtys[0] if c.argtys else ""
            if "str" in a0.split("<")[0] or a0.lstrip("&mut ").startswith(("std::string::String", "str")):
                continue   # text slicing: R02.3
            total += 1
            idx = guards.var_of(f, c.args[1]) if len(c.args) > 1 else ("unknown",)
            rels = dominating_relations(f, c.bb)
            why = None
            if "BTreeMap" in a0:
                why = "map lookup by key (keys taken from the same map)"
            elif _is_loop_index(f, idx):
                why = "loop index of an enumerate/range over the indexed length"
            else:
                for (op, a, b) in rels:
                    if (op == "Lt" and a == idx) or (op == "Gt" and b == idx) \
                            or (op in ("Le", "Lt") and a == idx) or (op in ("Ge", "Gt") and b == idx):
                        why = "dominated by %s" % guards.rel_str(op, a, b)
                        break
                if why is None and idx[0] == "add":
                    why_parts = [rel for rel in rels if rel[1] in (idx[1], idx[2]) or rel[2] in (idx[1], idx[2])]
                    if why_parts:
                        why = "offset index; dominated by %s" % ", ".join(guards.rel_str(*x) for x in why_parts[:3])
            desc = "%s: %s[%s]" % (f.path, a0.split("<")[0].split("::")[-1], guards.term_str(idx))
            if why:
                r.inst(desc + " — " + why)
                r.ok()
            else:
                r.inst(desc + " — UNPROVEN")
                r.unproven.append(desc + " at %s" % c.loc)
        for bb in range(len(f.blocks)):
            if f.is_cleanup(bb):
                continue
            t = f.term(bb)
            if t["k"] != "assert":
                continue
            kind = t["kind"]
            if kind == "BoundsCheck":
                total += 1
                idx = guards.var_of(f, t["ops"][1])
                rels = dominating_relations(f, bb)
                why = None
                if idx[0] == "const":
                    for (op, a, b) in rels:
                        # len != 0, len == k, len > k ...
                        if a[0] == "len" or b[0] == "len" or (a[0] == "call" and "is_empty" in a[1]):
                            why = "constant index; dominated by %s" % guards.rel_str(op, a, b)
                    if why is None:
                        # is_empty() test
                        why = None
                desc = "%s: slice[%s]" % (f.path, guards.term_str(idx))
                if why:
                    r.inst(desc + " — " + why)
                    r.ok()
                else:
                    r.inst(desc + " — UNPROVEN")
                    r.unproven.append(desc + " at %s" % mir.span_loc(t["span"]))
            elif kind.startswith("Overflow(Sub)") and all(x in ("usize",) for x in t["optys"]):
                total += 1
                a = guards.var_of(f, t["ops"][0])
                b = guards.var_of(f, t["ops"][1])
                rels = dominating_relations(f, bb)
                why = None
                for (op, x, y) in rels:
                    if (op in ("Gt", "Ge") and x == a and y == b) or (op in ("Lt", "Le") and x == b and y == a):
                        why = "dominated by %s" % guards.rel_str(op, x, y)
                desc = "%s: %s - %s" % (f.path, guards.term_str(a), guards.term_str(b))
                if why:
                    r.inst(desc + " — " + why)
                    r.ok()
                else:
                    r.inst(desc + " — by invariant / UNPROVEN")
                    r.unproven.append(desc + " at %s" % mir.span_loc(t["span"]))
            elif kind.startswith("Overflow(Add)") and all(x in ("usize", "i32") for x in t["optys"]):
                total += 1
                r.inst("%s: counter/offset addition (%s)" % (f.path, t["optys"][0]))
                r.unproven.append("%s: addition on %s (bounded by input length)" % (f.path, t["optys"][0]))
    # two-sided range indexing `x[a..b]` of a value container (none today: the
    # repository's idiom is the total lookup `x.get(a..b)`): it panics when
    # a > b as well as when b > len, so it needs a comparison of the two
    # bounds on the way to it
    nrng = 0
    for f in prog.hand_fns():
        if f.from_expansion:
            continue
        for c in f.calls():
            d = c.declared or ""
            if d not in ("std::ops::Index::index", "std::ops::IndexMut::index_mut") or len(c.argtys) < 2:
                continue
            if not c.argtys[1].startswith("std::ops::Range<"):
                continue
            a0 = c.argtys[0].replace("&mut ", "").replace("&", "")
            if not (a0.startswith(("std::vec::Vec<eval::value::SourcedValue", "std::vec::Vec<u8", "[eval::value::SourcedValue", "[u8"))):
                continue
            nrng += 1
            cp = f.canon_op(c.args[1])
            ok_order = False
            desc = "%s: %s[a..b]" % (f.path, a0.split("<")[0].split("::")[-1])
            if cp[0][0] == "agg":
                st = f.stmts(cp[0][1])[cp[0][2]]
                aops = st[2][2]
                if len(aops) == 2:
                    s_t, e_t = guards.var_of(f, aops[0]), guards.var_of(f, aops[1])
                    for (op, a, b) in dominating_relations(f, c.bb):
                        if {repr(a), repr(b)} == {repr(s_t), repr(e_t)} and op in ("Le", "Lt", "Ge", "Gt"):
                            ok_order = True
            if ok_order:
                r.inst(desc + " — bounds compared on the way")
                r.ok()
            else:
                r.inst(desc + " — no comparison of the two bounds")
                r.fail("%s | range index without start<=end guard" % f.path,
                       "%s slices a value container with `[a..b]`, which "
                       "panics when a > b, and no comparison of the two "
                       "bounds guards it (the total lookup `get(a..b)` "
                       "answers None instead)" % f.path, where=c.loc)
    r.notes.append("two-sided range index sites on value containers: %d" % nrng)
    # index-taking container APIs that panic out of range (none today): a
    # call with no comparison at all on the way to it is a violation, a
    # guarded one is listed for review
    PANICKY = ("drain", "split_off", "remove", "insert", "swap_remove",
               "split_at", "split_at_mut", "copy_from_slice", "clone_from_slice",
               "swap", "rotate_left", "rotate_right", "splice", "replace_range")
    napi = 0
    for f in prog.hand_fns():
        if f.from_expansion:
            continue
        for c in f.calls():
            if c.is_ptr:
                continue
            name = (c.res or c.declared or "").split("::")[-1]
            if name not in PANICKY:
                continue
            a0 = (c.argtys[0] if c.argtys else "").replace("&mut ", "").replace("&", "")
            if not (a0.startswith(("std::vec::Vec<", "[", "std::string::String", "std::collections::VecDeque<"))):
                continue
            napi += 1
            rels = dominating_relations(f, c.bb)
            flag = guards.flag_guard_of(f, c.bb)
            desc = "%s: %s::%s" % (f.path, a0.split("<")[0].split("::")[-1], name)
            # "on any path", literally: the tests may sit in the two arms of an
            # earlier `if collect {..} else {..}` and rejoin before the call
            cmp_blocks = set()
            for b_ in range(len(f.blocks)):
                if f.is_cleanup(b_) or f.term(b_)["k"] != "switch":
                    continue
                i_ = f.switch_info(b_)
                rv_ = f.bool_def(i_["on"]) if i_ and i_["kind"] == "bool" else None
                if rv_ and rv_[0] == "bin" and rv_[1] in guards.NEG:
                    cmp_blocks.add(b_)
            every_path = c.bb not in f.reach_from(0, avoid=cmp_blocks)
            if rels or flag or every_path:
                r.inst(desc + " — guarded by %s" % ([guards.rel_str(*x) for x in rels[:3]] or "a flag"))
                r.unproven.append(desc + " guarded, not discharged, at %s" % c.loc)
            else:
                r.inst(desc + " — no guard on any path")
                r.fail("%s | unguarded %s on %s" % (f.path, name, a0.split("<")[0].split("::")[-1]),
                       "%s calls `%s`, which panics when its index/range is "
                       "out of bounds, and no comparison guards the call on "
                       "any path" % (f.path, name), where=c.loc)
    r.notes.append("index-taking panicking container APIs in hand-written code: %d" % napi)
    r.notes.append("named invariants for unproven sites: collect => at least "
                   "one pattern item (R13.4); slot offsets increasing and in "
                   "range (lexer); line/column counters bounded by input length")
    r.require_floor("index/arithmetic sites", total, 15)
    return r
