"""Operator-function analysis shared by C06, C10 and C16: locate the binary
operator function by shape, extract its (op, lhs kind, rhs kind) decision
table from discriminant switches (A4), and resolve delegated comparisons."""
import itertools

import mir

BINOP = "ast::BinaryOp"
VALUE = "eval::value::Value"
ERR = "eval::error::Error"

KINDS = ["Null", "Bool", "Int", "Str", "List", "Object", "BuiltinFunc", "Func"]
OPS = ["Sum", "Sub", "Mul", "Div", "Mod", "And", "Or", "Eq", "Ne", "Gt", "Gte",
       "Lt", "Lte", "RefEq", "RefNe"]


def arg_rooted_switches(f):
    """{canonical path: enum type} for discriminant switches on places rooted
    at a parameter."""
    out = {}
    for bb in range(len(f.blocks)):
        if f.is_cleanup(bb) or f.term(bb)["k"] != "switch":
            continue
        info = f.switch_info(bb)
        if info and info["kind"] == "discr":
            cp = f.canon(info["place"])
            if cp[0][0] == "arg":
                out[cp] = info["enum"]
    return out


def _arm_helper(call):
    """Inline the dispatcher's arms (helpers that still receive the operator)
    and small utilities, but keep comparison helpers g(lhs, rhs) as calls:
    their acceptance tables are read separately (delegated tables)."""
    g = call.fn.prog.fns.get(call.res)
    if g is None:
        return False
    ptys = [t.replace("&", "").replace("mut ", "").strip() for t in g.locals[1:g.arg_count + 1]]
    if ptys.count(VALUE) >= 2 and BINOP not in ptys:
        return False
    return True


def find_operator_fn(prog):
    """The function that switches on one BinaryOp parameter and two Value
    parameters (anchor by shape, not by name)."""
    memo = getattr(prog, "_operator_fn", None)
    if memo is not None:
        return memo
    cands = []

    def shape(f):
        sw = arg_rooted_switches(f)
        ops = [cp for cp, e in sw.items() if e == BINOP]
        vals = sorted(cp for cp, e in sw.items() if e == VALUE and len(cp) == 2)
        if len(ops) == 1 and len(vals) == 2:
            return (f, ops[0], vals[0], vals[1])
        return None
    for f in prog.hand_fns():
        if f.is_closure or f.from_expansion:
            continue
        s = shape(f)
        if s:
            cands.append(s)
    def n_ops(c):
        f = c[0]
        seen = set()
        for bb in range(len(f.blocks)):
            if f.is_cleanup(bb) or f.term(bb)["k"] != "switch":
                continue
            info = f.switch_info(bb)
            if info and info["kind"] == "discr" and info["enum"] == BINOP:
                seen |= {n for n, _ in info["cases"]}
        return len(seen)
    all_ops = len(prog.enum_variant_names(BINOP))
    if not cands or max(n_ops(c) for c in cands) < all_ops:
        # the shape may be spread over private helpers (a dispatcher on the
        # operator whose arms live in their own functions): look at the
        # inlined view of every function that takes an operator and two values
        import inline
        for f in prog.hand_fns():
            if f.is_closure or f.from_expansion:
                continue
            ptys = f.locals[1:f.arg_count + 1]
            if sum(1 for t in ptys if t.replace("&", "").strip() == BINOP) != 1 \
                    or sum(1 for t in ptys if t.replace("&", "").strip() == VALUE) != 2:
                continue
            v = inline.view(prog, f, pick=_arm_helper)
            if v is f:
                continue
            s = shape(v)
            if s:
                cands.append(s)
    # the operator function *produces a value*: its result type carries a
    # Value (helpers that merely inspect an operator and two operands do not)
    prod = [c for c in cands if c[0].locals and VALUE in c[0].locals[0]]
    if prod:
        cands = prod
    if len(cands) > 1:
        best = max(n_ops(c) for c in cands)
        cands = [c for c in cands if n_ops(c) == best]
    # kind tests hidden in accessor methods (`lhs.as_int()`): analyse the view
    # in which they are inlined, so that the tables see the tests again
    import inline as _inline
    out_ = []
    for c in cands:
        f0 = c[0]
        base = getattr(f0, "base", f0)
        def _takes_op(x):
            g_ = prog.fns.get(x.res)
            return g_ is not None and g_.full and not g_.is_closure and g_.path != base.path \
                and g_.path in _inline.private_helpers(prog, base) \
                and any(t.replace("&", "").strip() == BINOP for t in g_.locals[1:g_.arg_count + 1])
        def _worker_closure(x):
            """an own closure, called directly, that does part of the
            operator's work: it calls a hand-written function (the comparison
            helpers) or an i64 primitive — not a mere error constructor"""
            g_ = prog.fns.get(x.res) if not x.is_ptr else None
            if g_ is None or not g_.full or not g_.is_closure or g_.root_fn().path != base.path:
                return False
            for y in g_.calls():
                if y.is_ptr:
                    continue
                h_ = prog.fns.get(y.res)
                if h_ is not None and h_.full and not h_.is_closure and not h_.from_expansion \
                        and not h_.generated and h_.impl_trait is None:
                    return True
                if (y.res or "").startswith("core::num::<impl i64>::"):
                    return True
            return False
        if any(_worker_closure(x) for x in f0.calls()):
            def _pick_workers(call):
                g_ = prog.fns.get(call.res)
                if g_ is not None and g_.is_closure:
                    return _worker_closure(call)
                return _arm_helper(call)
            v = _inline.view(prog, base, pick=_pick_workers, accessors=True, closures=True)
            s = shape(v) if v is not base else None
            out_.append(s if s else c)
        elif any((not x.is_ptr) and (_inline.is_accessor(prog.fns.get(x.res)) or _takes_op(x)) for x in f0.calls()):
            v = _inline.view(prog, base, pick=_arm_helper, accessors=True)
            s = shape(v) if v is not base else None
            out_.append(s if s else c)
        else:
            out_.append(c)
    cands = out_
    prog._operator_fn = cands
    return cands


def constructs(prog, f, memo=None):
    """Set of (adt, variant) aggregates built by f or by closures it creates
    and local non-recursive helpers it calls directly (one level)."""
    out = set()
    for bb, i, pl, kd, ops, sp in f.aggregates():
        out.add((kd["adt"], kd["variant"]))
    return out


def constructs_deep(prog, g, depth=2, _seen=None):
    """Aggregates built by g, by the closures it creates, and by the
    hand-written helpers it calls (bounded depth): what a call to g may
    construct on the caller's behalf."""
    memo = getattr(prog, "_constructs_deep", None)
    if memo is None:
        memo = prog._constructs_deep = {}
    key = (g.path, depth)
    if key in memo:
        return memo[key]
    seen = _seen or set()
    if g.path in seen:
        return set()
    seen = seen | {g.path}
    out = set(constructs(prog, g))
    for h in prog.closures_of(g.path):
        out |= constructs(prog, h)
    if depth > 0:
        for c in g.calls():
            if c.is_ptr:
                continue
            h = prog.fns.get(c.res)
            if h is not None and h.full and not h.generated and not h.is_closure and len(h.blocks) < 400 \
                    and not h.from_expansion and h.impl_trait is None:
                out |= constructs_deep(prog, h, depth - 1, seen)
    memo[key] = out
    return out


def block_constructs(prog, f, bb):
    """(adt, variant) aggregates built in block bb, including by a closure of
    this function called from bb."""
    out = set()
    for s in f.stmts(bb):
        if s[0] == "=" and s[2][0] == "agg" and s[2][1].get("k") == "adt":
            out.add((s[2][1]["adt"], s[2][1]["variant"]))
    c = f.call_at(bb)
    if c is not None and not c.is_ptr:
        g = prog.fns.get(c.res)
        members = getattr(f, "members", {f.root_fn().path})
        if g is not None and g.full and g.is_closure and g.root_fn().path in members:
            out |= constructs_deep(prog, g)      # (a closure may itself call a constructor helper)

        # combinators: a closure or constructor handed to the call
        # (`.map(Value::Int)`, `.ok_or_else(|| overflow(..))`, `.or_else(|e| ..)`)
        # may construct on behalf of this block
        if g is None or not g.full:
            for a in c.args:
                k = mir.op_const(a)
                if k is not None and "fn" in k:
                    out |= _ctor_or_fn_constructs(prog, k["fn"])
                    continue
                if not mir.is_place_operand(a):
                    continue
                cp = f.canon_op(a)
                if cp[0][0] == "agg":
                    st = f.stmts(cp[0][1])[cp[0][2]]
                    kd = st[2][1]
                    if kd.get("k") == "closure":
                        h = prog.fns.get(kd["def"])
                        if h is not None and h.full:
                            out |= constructs_deep(prog, h)
                            for c2 in h.calls():
                                h2 = prog.fns.get(c2.res) if not c2.is_ptr else None
                                if h2 is not None and h2.full and h2.is_closure:
                                    out |= constructs(prog, h2)
    return out


def _ctor_or_fn_constructs(prog, path):
    """A function item used as a value: an enum-variant constructor
    (`Value::Int`) builds that variant; a local function builds what it builds."""
    if "::" in path:
        adt, var = path.rsplit("::", 1)
        a = prog.adts.get(adt)
        if a is not None and any(v["name"] == var for v in a["variants"]):
            return {(adt, var)}
    g = prog.fns.get(path)
    if g is not None and g.full:
        return constructs(prog, g)
    return set()


class PairTable:
    """Decision table of a function over (lhs kind, rhs kind) [and op]."""

    def __init__(self, prog, f, paths):
        self.prog = prog
        self.f = f
        self.paths = paths
        self.vf = mir.VariantFlow(f, paths)
        self._bc = {}

    def bc(self, bb):
        if bb not in self._bc:
            out = set(block_constructs(self.prog, self.f, bb))
            # a hand-written helper called from this block constructs on its behalf
            c = self.f.call_at(bb)
            if c is not None and not c.is_ptr:
                g = self.prog.fns.get(c.res)
                if g is not None and g.full and not g.is_closure and not g.generated \
                        and g.path != self.f.path and not g.from_expansion and g.impl_trait is None:
                    # (derived impls such as Clone rebuild every variant: they
                    # copy a value, they do not compute one)
                    out |= constructs_deep(self.prog, g)
            self._bc[bb] = out
        return self._bc[bb]

    def reaches(self, tup, pred):
        """Does control with variant tuple `tup` reach a block b with
        pred(b) true?"""
        for bb in self.vf.blocks_for(tup):
            if pred(bb):
                return True
        return False

    def exclusive_blocks(self, tup):
        return {bb for bb in self.vf.blocks_for(tup)
                if self.vf.at(bb) == frozenset([tup])}

    def blocks_subset(self, tups):
        tups = frozenset(tups)
        return {bb for bb, st in self.vf.state.items() if st and st <= tups}


def payload_path(base, kind):
    return tuple(base) + (("d", kind), ("f", 0))


def strip_refs(cp):
    return tuple(p for p in cp if p != "&")


def same_value(cp, target):
    """cp denotes the same value as target up to references."""
    a = [p for p in cp if p not in ("&", "*")]
    b = [p for p in target if p not in ("&", "*")]
    return a == b


def closure_arg_operands(f, c):
    """For a call to a closure (env, tuple) return the operands inside the
    tuple; for a plain call return c.args."""
    g = f.prog.fns.get(c.res) if not c.is_ptr else None
    if g is not None and g.is_closure and len(c.args) == 2 \
            and mir.is_place_operand(c.args[1]):
        pl = mir.op_place(c.args[1])
        if not pl[1]:
            sd = f.single_def(pl[0])
            if sd and sd[2] == "rv" and sd[3][0] == "agg" \
                    and sd[3][1].get("k") == "tuple":
                return list(sd[3][2])
    return list(c.args)


TRANSPORT = ("std::ops::Try::branch", "std::hint::must_use",
             "std::convert::From::from", "std::convert::Into::into",
             "std::ops::FromResidual::from_residual")


def forward_taint(f, call=None, seeds=()):
    """Locals that may hold (a projection of) the value returned by `call`
    (or held by `seeds`), following moves/copies through locals
    (flow-insensitive, also through locals assigned on several paths) and the
    `?`/context transport calls."""
    tainted = set(seeds)
    if call is not None and call.dst is not None:
        tainted.add(call.dst[0])
    changed = True
    while changed:
        changed = False
        for bb in range(len(f.blocks)):
            if f.is_cleanup(bb):
                continue
            for s in f.stmts(bb):
                if s[0] != "=":
                    continue
                dst = s[1][0]
                if dst in tainted:
                    continue
                rv = s[2]
                srcs = [p[0] for p in mir.rvalue_places(rv)] if rv[0] in ("use", "ref", "cfd", "cast", "agg") else []
                if any(x in tainted for x in srcs):
                    tainted.add(dst)
                    changed = True
            d = f.call_at(bb)
            if d is None or d.dst is None or d.dst[0] in tainted:
                continue
            dn = d.declared or ""
            if (dn in TRANSPORT or dn.endswith("ResultExt::context") or dn.endswith("Result::<T, E>::map_err")) and d.args \
                    and mir.is_place_operand(d.args[0]) and mir.op_place(d.args[0])[0] in tainted:
                tainted.add(d.dst[0])
                changed = True
    return tainted


def forward_users(f, call):
    """Calls that receive (a projection of) the value returned by `call`."""
    tainted = forward_taint(f, call)
    users = []
    for d in f.calls():
        dn = d.declared or ""
        if d.bb == call.bb or dn in TRANSPORT or dn.endswith("ResultExt::context"):
            continue
        if any(mir.is_place_operand(a) and mir.op_place(a)[0] in tainted for a in d.args):
            users.append(d)
    return users


def try_chain_source(f, operand, max_steps=12):
    """Resolve an operand through `?` (Try::branch Continue payload),
    snafu context, and Ok/Some payload projections to the call that produced
    the underlying value.  Returns the Call or None."""
    if not mir.is_place_operand(operand):
        return None
    cp = f.canon(mir.op_place(operand))
    for _ in range(max_steps):
        root = cp[0]
        if root[0] == "local":
            # a Result/Option local built per path (`match h() { Ok(v) => Ok(v),
            # Err(e) => Err(wrap(e)) }`, the result slot of an inlined closure):
            # the success payload is the operand of its one Ok/Some aggregate
            ds = f.defs().get(root[1], [])
            hits = [p for (_, _, k, p) in ds if k == "rv" and p[0] == "agg" and p[1].get("variant") in ("Ok", "Some")]
            if ds and all(k == "rv" and p[0] == "agg" for (_, _, k, p) in ds) and len(hits) == 1 \
                    and hits[0][2] and mir.is_place_operand(hits[0][2][0]):
                cp = f.canon(mir.op_place(hits[0][2][0]))
                continue
            return None
        if root[0] != "call":
            return None
        c = f.call_at(root[1])
        if c is None:
            return None
        d = c.declared or ""
        if d in ("std::ops::Try::branch",) or d.endswith("ResultExt::context") \
                or d in ("std::hint::must_use", "std::convert::From::from",
                         "std::convert::Into::into") \
                or (c.res or "").endswith(("Result::<T, E>::map_err", "Option::<T>::ok_or", "Option::<T>::ok_or_else")):
            # (map_err / ok_or* keep the success payload)
            if c.args and mir.is_place_operand(c.args[0]):
                cp = f.canon(mir.op_place(c.args[0]))
                continue
            return None
        return c
    return None
