"""E3 — grammar analyser over LALRPOP's normalised BNF.

LALRPOP writes one comment per reduction into the generated parser
(`// Lhs = Sym, Sym => ActionFn(n);`) with macros and ?,*,+ expanded.  This
module parses that normal form per sub-parser, cross-validates it against the
number of `__reduceN` functions, reads the terminal -> Token map from the
grammar's `extern` block, and implements A8 (stratification of the expression
sub-grammar)."""
import re

PROD_RE = re.compile(r"^\s*// (.+?) = (.*?) => ActionFn\((\d+)\);\s*$")
MOD_RE = re.compile(r"^mod (__parse__\w+) \{")
REDUCE_FN_RE = re.compile(r"^\s*(?:pub\(crate\) )?fn __reduce(\d+)<")


def split_syms(rhs):
    """Split 'A, "b", C<D, E>' at top-level commas."""
    out = []
    depth = 0
    cur = ""
    instr = False
    for ch in rhs:
        if ch == '"':
            instr = not instr
            cur += ch
        elif instr:
            cur += ch
        elif ch in "<(":
            depth += 1
            cur += ch
        elif ch in ">)":
            depth -= 1
            cur += ch
        elif ch == "," and depth == 0:
            out.append(cur.strip())
            cur = ""
        else:
            cur += ch
    if cur.strip():
        out.append(cur.strip())
    return out


class Grammar:
    def __init__(self, parser_rs, lalrpop_src):
        self.mods = {}        # module -> list of (lhs, [syms], action)
        self.reduce_fns = {}  # module -> count of __reduceN fns
        cur = None
        for line in parser_rs.splitlines():
            m = MOD_RE.match(line)
            if m:
                cur = m.group(1)
                self.mods[cur] = []
                self.reduce_fns[cur] = set()
                continue
            if cur is None:
                continue
            m = PROD_RE.match(line)
            if m:
                lhs, rhs, act = m.group(1).strip(), m.group(2).strip(), int(m.group(3))
                self.mods[cur].append((lhs, split_syms(rhs), act))
                continue
            m = REDUCE_FN_RE.match(line)
            if m:
                self.reduce_fns[cur].add(int(m.group(1)))
        self.terminals = self._parse_extern(lalrpop_src)

    @staticmethod
    def _parse_extern(src):
        """terminal string -> Token variant name, from `enum Token { .. }` of
        the extern block."""
        out = {}
        m = re.search(r"enum\s+Token\s*\{(.*?)\n\s*\}", src, re.S)
        if not m:
            return out
        body = m.group(1)
        for t, v in re.findall(r'"((?:[^"\\]|\\.)*)"\s*=>\s*Token::(\w+)', body):
            out[t] = v
        return out

    def productions(self, mod):
        """Unique productions of a sub-parser (each reduction comment appears
        once at its __reduceN function and once in the dispatch)."""
        seen = []
        s = set()
        for p in self.mods.get(mod, []):
            key = (p[0], tuple(p[1]), p[2])
            if key not in s:
                s.add(key)
                seen.append(p)
        return seen

    def user_productions(self, mod):
        return [p for p in self.productions(mod) if not p[0].startswith("__")]

    @staticmethod
    def is_terminal(sym):
        return sym.startswith('"')

    @staticmethod
    def term(sym):
        return sym[1:-1]

    def by_lhs(self, mod):
        d = {}
        for lhs, syms, act in self.user_productions(mod):
            d.setdefault(lhs, []).append((syms, act))
        return d

    def token_classes(self, mod):
        """Nonterminals whose only production is a single terminal."""
        d = self.by_lhs(mod)
        out = {}
        for n, ps in d.items():
            if len(ps) == 1 and len(ps[0][0]) == 1 and self.is_terminal(ps[0][0][0]):
                out[n] = self.term(ps[0][0][0])
        return out

    # ---- A8 -----------------------------------------------------------------
    def stratify(self, mod, start="Expr"):
        """Return dict(tiers=[...], problems=[...]).  Each tier:
        {name, aliases, infix:[(ops, left, right, action)], postfix:[...],
         atoms:[...], unit_next, opnt}"""
        d = self.by_lhs(mod)
        tcl = self.token_classes(mod)
        problems = []

        def unit_target(n):
            """Single nonterminal unit production of n (not a token class)."""
            outs = []
            for syms, act in d.get(n, []):
                if len(syms) == 1 and not self.is_terminal(syms[0]) and syms[0] not in tcl \
                        and syms[0] in d:
                    outs.append((syms[0], act))
            return outs

        tiers = []
        aliases = []
        cur = start
        seen = set()
        while cur and cur not in seen:
            seen.add(cur)
            prods = d.get(cur, [])
            units = unit_target(cur)
            non_unit = [(s, a) for (s, a) in prods
                        if not (len(s) == 1 and not self.is_terminal(s[0]) and s[0] not in tcl and s[0] in d)]
            if len(units) > 1:
                problems.append("nonterminal %s has %d unit productions" % (cur, len(units)))
            if not non_unit:
                aliases.append((cur, units[0][1] if units else None))
                cur = units[0][0] if units else None
                continue
            tier = {"name": cur, "aliases": [a for a, _ in aliases] + [cur],
                    "alias_actions": [x for _, x in aliases if x is not None],
                    "prods": non_unit, "unit_next": units[0][0] if units else None,
                    "unit_action": units[0][1] if units else None}
            tiers.append(tier)
            aliases = []
            cur = units[0][0] if units else None
        # alias classes of the following tier (for the right operand)
        for i, t in enumerate(tiers):
            nxt = set()
            if i + 1 < len(tiers):
                nxt = set(tiers[i + 1]["aliases"])
            t["next_aliases"] = nxt
        # wrappers: a nonterminal outside the chain whose only productions are
        # the single symbol of one tier (e.g. a boxing helper `Target = Tier`)
        chain = set()
        for t in tiers:
            chain |= set(t["aliases"])
        wrappers = {}
        for n, ps in d.items():
            if n in chain or n in tcl:
                continue
            tgt = {s[0] for s, a in ps if len(s) == 1}
            if len(tgt) == 1 and all(len(s) == 1 for s, a in ps) and next(iter(tgt)) in chain:
                wrappers[n] = next(iter(tgt))
        # classify productions
        for i, t in enumerate(tiers):
            last = (i == len(tiers) - 1)
            t["infix"], t["postfix"], t["atoms"], t["other"] = [], [], [], []
            own = set(t["aliases"])
            own |= {w for w, tg in wrappers.items() if tg in own}
            t["next_aliases"] = set(t["next_aliases"]) | {w for w, tg in wrappers.items() if tg in t["next_aliases"]}
            for syms, act in t["prods"]:
                if len(syms) == 3 and syms[0] in own and syms[2] in t["next_aliases"] \
                        and (self.is_terminal(syms[1]) or self._op_nonterminal(d, syms[1])):
                    if self.is_terminal(syms[1]):
                        ops = [(self.term(syms[1]), None)]
                    else:
                        ops = [(self.term(s[0]), a) for s, a in d[syms[1]]]
                    t["infix"].append({"ops": ops, "left": syms[0], "right": syms[2],
                                       "action": act, "opnt": None if self.is_terminal(syms[1]) else syms[1]})
                elif len(syms) >= 2 and syms[0] in own and self.is_terminal(syms[1]):
                    t["postfix"].append({"syms": syms, "action": act})
                elif last and (self.is_terminal(syms[0]) or syms[0] in tcl):
                    t["atoms"].append({"syms": syms, "action": act})
                else:
                    t["other"].append({"syms": syms, "action": act})
        return {"tiers": tiers, "problems": problems, "token_classes": tcl, "wrappers": wrappers}

    def _op_nonterminal(self, d, n):
        ps = d.get(n)
        if not ps:
            return False
        return all(len(s) == 1 and self.is_terminal(s[0]) for s, a in ps)
