"""Semantic anchors: modules and functions located by what they do, so that
renaming or moving a function does not invalidate a rule.  (The core *types* —
eval::value::Value, ast::Stmt, eval::error::Error, lexer::Token, … — are named
explicitly; renaming those requires updating the tables.)"""
import mir
import ops

ERR = "eval::error::Error"
RAWEXPR = "ast::RawExpr"


def binder_fns(prog):
    """Functions with a RawExpr decision table that rejects targets with
    InvalidBindTarget and that mutate/declare (the binder), excluding the
    parameter validator (which only validates)."""
    out = []
    for f in prog.hand_fns():
        if f.is_closure or f.from_expansion:
            continue
        sw = ops.arg_rooted_switches(f)
        if not any(e == RAWEXPR for e in sw.values()):
            continue
        builds = (ERR, "InvalidBindTarget") in ops.constructs(prog, f) or any(
            (ERR, "InvalidBindTarget") in ops.constructs(prog, g) for g in prog.closures_of(f.path))
        takes_value = any("eval::value::SourcedValue" == f.locals[i] for i in range(1, f.arg_count + 1))
        if builds and takes_value:
            out.append(f)
    return out


def binder_module(prog):
    fs = binder_fns(prog)
    if fs:
        return fs[0].module
    return "eval::bind"


def scope_module(prog):
    a = prog.adts.get("eval::scope::ScopeStack")
    return a["module"] if a and a.get("module") else "eval::scope"


SCOPESTACK = "eval::scope::ScopeStack"


import re as _re_mod

_SEQ_WRAP = ("std::sync::Arc<", "std::rc::Rc<", "std::boxed::Box<")


def seq_elem(t):
    """Element type of a (reference to a) sequence of AST nodes or values:
    `&Vec<T>`, `&[T]`, `&Arc<[T]>`, `&Arc<Vec<T>>`, `Vec<T>` ... -> `T`;
    None for anything else.  (A clean-up that borrows a slice instead of a
    `&Vec`, or shares a body behind an `Arc`, keeps the element type.)"""
    t = _strip_ty(t)
    for w in _SEQ_WRAP:
        if t.startswith(w) and t.endswith(">"):
            t = t[len(w):-1]
            break
    if t.startswith("std::vec::Vec<") and t.endswith(">"):
        return t[len("std::vec::Vec<"):-1]
    if t.startswith("[") and t.endswith("]") and ";" not in t:
        return t[1:-1]
    return None


def is_seq_ref(t, elem):
    return t.startswith("&") and seq_elem(t) == elem


def mentions_expr(prog, t):
    """Does type string t mention an expression of the AST: `RawExpr` itself,
    the `(RawExpr, Location)` pair, or a crate struct pairing a `RawExpr` with
    its location (`Expr{raw, loc}`)?"""
    if "ast::RawExpr" in t:
        return True
    memo = getattr(prog, "_expr_adts", None)
    if memo is None:
        memo = prog._expr_adts = {p for p, a in prog.adts.items()
                                  if not p.startswith(("std::", "core::", "alloc::")) and len(a.get("variants", [])) == 1
                                  and any(fd["ty"] == "ast::RawExpr" for fd in a["variants"][0]["fields"])}
    return any(p in t for p in memo)


def evaluation_reach(prog):
    """Everything that can run while a script is being evaluated: the forward
    closure (function pointers included, i.e. the builtins) of the
    hand-written functions outside the crate root that are handed a piece of
    the AST.  Set-up code of the driver (`main`, registration of builtins) is
    outside it: it runs before the first statement and sees no script value."""
    memo = getattr(prog, "_evaluation_reach", None)
    if memo is not None:
        return memo
    roots = []
    for f in prog.hand_fns():
        if f.is_closure or f.from_expansion or not f.module:
            continue
        if any("ast::" in t for t in f.locals[1:f.arg_count + 1]):
            roots.append(f.path)
    out = prog.reachable_from(roots, prog.call_graph())
    prog._evaluation_reach = out
    return out


def cell_allocators(prog):
    """Crate helpers that hand back a cell they have just allocated
    (`fn new_shared<T>(v: T) -> Arc<Mutex<T>> { Arc::new(Mutex::new(v)) }`):
    every value they return is the result of an `Arc::new` of their own."""
    memo = getattr(prog, "_cell_allocators", None)
    if memo is not None:
        return memo
    out = set()
    for f in prog.hand_fns():
        if f.is_closure or f.from_expansion or not f.locals or not f.locals[0].startswith("std::sync::Arc<"):
            continue
        ds = f.defs().get(0, [])
        ok = bool(ds)
        for (bb, idx, kind, payload) in ds:
            if kind == "call":
                c = payload
                if (c.declared or "") != "std::sync::Arc::<T>::new":
                    ok = False
            elif kind == "rv" and payload[0] == "use" and mir.is_place_operand(payload[1]):
                cp = f.canon_op(payload[1])
                c = f.call_at(cp[0][1]) if cp[0][0] == "call" and len(cp) == 1 else None
                if c is None or (c.declared or "") != "std::sync::Arc::<T>::new":
                    ok = False
            else:
                ok = False
        if ok:
            out.add(f.path)
    prog._cell_allocators = out
    return out


def _generic_args(t):
    """Top-level generic arguments of `Head<A, B>` -> (head, [A, B])."""
    i = t.find("<")
    if i < 0 or not t.endswith(">"):
        return t, []
    head, body = t[:i], t[i + 1:-1]
    out, depth, cur = [], 0, ""
    for ch in body:
        if ch in "<([":
            depth += 1
        elif ch in ">)]":
            depth -= 1
        if ch == "," and depth == 0:
            out.append(cur.strip())
            cur = ""
        else:
            cur += ch
    if cur.strip():
        out.append(cur.strip())
    return head, out


DEFAULT_SCOPE_MAP = "std::collections::HashMap<std::string::String, (eval::value::SourcedValue, (usize, usize))>"


def scope_map_ty(prog):
    """The type of one scope's bindings, found in ScopeStack's type graph (the
    `HashMap<String, V>` behind the chain's shared cells), whatever `V` is
    today: a `(value, location)` pair or a crate struct holding them."""
    memo = getattr(prog, "_scope_map_ty", None)
    if memo is not None:
        return memo
    found = []
    seen = set()

    def walk(t, depth):
        if depth > 8 or t in seen:
            return
        seen.add(t)
        t = _strip_ty(t)
        head, args = _generic_args(t)
        if head == "std::collections::HashMap" and args and args[0] == "std::string::String":
            found.append(t)
            return
        a = prog.adts.get(head if args else t)
        if a and not head.startswith(("std::", "core::", "alloc::")):
            for v in a.get("variants", []):
                for fd in v["fields"]:
                    walk(fd["ty"], depth + 1)
        for x in args:
            walk(x, depth + 1)
    a = prog.adts.get(SCOPESTACK)
    if a:
        for v in a.get("variants", []):
            for fd in v["fields"]:
                walk(fd["ty"], 0)
    out = found[0] if found else DEFAULT_SCOPE_MAP
    prog._scope_map_ty = out
    return out


def scope_map_path(prog):
    """The scope map type as it appears in a resolved method path
    (`HashMap::<String, V>::get`)."""
    return scope_map_ty(prog).replace("std::collections::HashMap<", "HashMap::<", 1)[:-1]


def is_scope_map(prog, s):
    """Does the type or resolved-path string `s` mention the scope map type
    (`HashMap<String, V>` as a type, `HashMap::<String, V>` in a path)?"""
    if not s:
        return False
    m = scope_map_ty(prog)
    return m in s or m.replace("HashMap<", "HashMap::<", 1) in s


def scope_pushers(prog):
    """Scope-module functions that take a chain by reference and return a
    chain onto which they pushed a scope cell (today: new_from_push)."""
    sm = scope_module(prog)
    out = []
    for f in prog.hand_fns():
        if f.is_closure or f.from_expansion or not f.module.startswith(sm) or not f.locals:
            continue
        ptys = f.locals[1:f.arg_count + 1]
        # it returns the extended chain, or lends it to a callback
        # (`with_new_scope(&self, f: impl FnOnce(&mut ScopeStack) -> T) -> T`)
        if f.locals[0] != SCOPESTACK and callback_param(f) is None:
            continue
        if not any(t.replace("&mut ", "&") == "&" + SCOPESTACK for t in ptys):
            continue
        # it allocates one new shared cell (a Vec slot `Arc<Mutex<Scope>>` or a
        # list node `Arc<ScopeNode>`)
        if any((c.declared or "") == "std::sync::Arc::<T>::new" for c in f.calls()):
            out.append(f)
    return out


_CALLBACK_RE = _re_mod.compile(r"Fn(Once|Mut)?\(&mut (\w+::)*ScopeStack\)")


def callback_param(f):
    """Index of a parameter of f that is a callback receiving `&mut ScopeStack`
    (the chain is lent to the callback instead of being returned), or None."""
    for i in range(1, f.arg_count + 1):
        if _CALLBACK_RE.search(f.locals[i]):
            return i
    return None


def chain_cloners(prog):
    """Scope-module functions that hand back a shallow copy of the chain they
    are given (`capture(&self) -> ScopeStack { ScopeStack(self.0.clone()) }`):
    no new cell, no push, nothing removed — equivalent to `clone()`."""
    sm = scope_module(prog)
    out = set()
    for f in prog.hand_fns():
        if f.is_closure or f.from_expansion or not f.module.startswith(sm) or not f.locals:
            continue
        if f.locals[0] != SCOPESTACK or f.arg_count != 1 or f.locals[1].replace("&mut ", "&") != "&" + SCOPESTACK:
            continue
        names = [(c.res or c.declared or "").split("::")[-1] for c in f.calls()]
        if any(n in ("new", "push", "pop", "truncate", "remove", "insert", "drain", "clear", "split_off") for n in names):
            continue
        if any((c.declared or "") == "std::clone::Clone::clone" for c in f.calls()) and not f.natural_loops():
            out.add(f.path)
    return out


def pusher_appends(prog):
    """True when the pushing constructor appends to a Vec (innermost scope =
    last element); False when it links a new head node in front of the chain."""
    return any((c.res or "").endswith("::push") for p in scope_pushers(prog) for c in p.calls())


def scope_root_ctors(prog):
    """Scope-module functions that build a chain from nothing (no chain
    parameter): the empty root."""
    sm = scope_module(prog)
    out = []
    for f in prog.hand_fns():
        if f.is_closure or f.from_expansion or not f.module.startswith(sm) or not f.locals:
            continue
        if f.locals[0] != SCOPESTACK:
            continue
        ptys = f.locals[1:f.arg_count + 1]
        if any(SCOPESTACK in t for t in ptys):
            continue
        out.append(f)
    return out


def _strip_ty(t):
    import re as _re
    t = _re.sub(r"'[a-z_]+ ", "", t)
    t = t.replace("&mut ", "").replace("&", "").strip()
    return _re.sub(r"<'[a-z_]+(, '[a-z_]+)*>$", "", t)


def chain_carriers(prog):
    """Crate structs that hold a *mutable borrow* of a scope chain (an
    `Evaluator{context, scopes: &mut ScopeStack}`-style bundle): a value of
    such a type stands for the current chain just as a `&mut ScopeStack`
    parameter does.  {adt path: (field index, field name)}"""
    memo = getattr(prog, "_chain_carriers", None)
    if memo is not None:
        return memo
    out = {}
    for path, a in prog.adts.items():
        if path.startswith(("std::", "core::", "alloc::")) or len(a.get("variants", [])) != 1:
            continue
        for i, fd in enumerate(a["variants"][0]["fields"]):
            if fd["ty"].startswith("&") and "mut " in fd["ty"].split("eval::")[0] + "" \
                    and _strip_ty(fd["ty"]) == SCOPESTACK:
                out[path] = (i, fd["name"])
    prog._chain_carriers = out
    return out


def is_chain_ty(prog, t):
    """`&mut ScopeStack` or a (reference to a) chain carrier."""
    if not t.startswith("&"):
        return False
    s = _strip_ty(t)
    return (s == SCOPESTACK and "mut " in t) or s in chain_carriers(prog)


def chain_pi(prog, t):
    """Projection from a value of chain type `t` to the ScopeStack itself."""
    s = _strip_ty(t)
    if s == SCOPESTACK:
        return ("*",)
    k, name = chain_carriers(prog)[s]
    return ("*", ("f", k, s, s.split("::")[-1]), "*")


def unwrap_carrier(prog, g, operand, depth=0):
    """If `operand` is (a reference to) a chain carrier built by a constructor
    call `Carrier::new(.., chain, ..)` or a struct literal, return the operand
    that supplies its chain field; otherwise return `operand`."""
    if depth > 3 or not mir.is_place_operand(operand):
        return operand
    cp = g.canon_op(operand)
    root = cp[0]
    carriers = chain_carriers(prog)
    if root[0] == "call":
        cc = g.call_at(root[1])
        h = prog.fns.get(cc.res) if cc is not None and not cc.is_ptr else None
        if h is not None and h.full and h.locals and _strip_ty(h.locals[0]) in carriers:
            k, name = carriers[_strip_ty(h.locals[0])]
            for bb, i, pl, kd, aops, sp in h.aggregates(_strip_ty(h.locals[0])):
                acp = h.canon_op(aops[k])
                if acp[0][0] == "arg" and acp[0][1] - 1 < len(cc.args):
                    return unwrap_carrier(prog, g, cc.args[acp[0][1] - 1], depth + 1)
    elif root[0] == "agg":
        st = g.stmts(root[1])[root[2]]
        kd = st[2][1]
        if kd.get("adt") in carriers:
            return unwrap_carrier(prog, g, st[2][2][carriers[kd["adt"]][0]], depth + 1)
    return operand


def driver_only_stdout(prog, f, call):
    """A stdout write in a crate-root driver function on a path that never
    runs a script: no call that can reach the program evaluator lies before
    or after it (`seed --version`, `seed --help`).  Such a write cannot mix
    with a script's output or with a failure diagnostic."""
    if f.root_fn().module != "" or f.is_closure:
        return False
    memo = getattr(prog, "_reach_eval", None)
    if memo is None:
        graph = prog.call_graph()
        evs = [g.path for g in prog.hand_fns() if not g.is_closure
               and any(t == "&ast::Prog" for t in g.locals[1:g.arg_count + 1])]
        memo = prog._reach_eval = {p for p in prog.fns if any(e in prog.reachable_from([p], graph) for e in evs)} | set(evs)
    if not memo:
        return False
    runs = [c.bb for c in f.calls() if not c.is_ptr and c.res in memo]
    after = f.reach_from(call.bb)
    if any(b in after for b in runs):
        return False
    for b in runs:
        if call.bb in f.reach_from(b):
            return False
    return True


def value_module(prog):
    a = prog.adts.get("eval::value::Value")
    return a["module"] if a and a.get("module") else "eval::value"


def ctor_variants(prog, path):
    """Value variants built by a value-module constructor function (empty set
    for anything else)."""
    g = prog.fns.get(path or "")
    if g is None or not g.full or not g.module.startswith(value_module(prog)):
        return set()
    return {kd["variant"] for bb, i, pl, kd, ao, sp in g.aggregates("eval::value::Value")}


BUILTIN_SIG = ("std::option::Option<eval::value::SourcedValue>",
               "std::vec::Vec<eval::value::SourcedValue>")


def is_builtin_fn(f):
    """Has the BuiltinFunc signature fn(Option<SourcedValue>, Vec<SourcedValue>)
    -> Result<SourcedValue, Error>."""
    return (not f.is_closure and f.arg_count == 2 and len(f.locals) > 2
            and f.locals[1] == BUILTIN_SIG[0] and f.locals[2] == BUILTIN_SIG[1]
            and f.locals[0].startswith("std::result::Result<eval::value::SourcedValue"))
