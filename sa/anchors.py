"""Semantic anchors: modules and functions located by what they do, so that
renaming or moving a function does not invalidate a rule.  (The core *types* —
eval::value::Value, ast::Stmt, eval::error::Error, lexer::Token, … — are named
explicitly; renaming those requires updating the tables.)"""
import mir
import ops

ERR = "eval::error::Error"
RAWEXPR = "ast::RawExpr"


def binder_fns(prog):
    """Functions with a RawExpr decision table that rejects targets with
    InvalidBindTarget and that mutate/declare (the binder), excluding the
    parameter validator (which only validates)."""
    out = []
    for f in prog.hand_fns():
        if f.is_closure or f.from_expansion:
            continue
        sw = ops.arg_rooted_switches(f)
        if not any(e == RAWEXPR for e in sw.values()):
            continue
        builds = (ERR, "InvalidBindTarget") in ops.constructs(prog, f) or any(
            (ERR, "InvalidBindTarget") in ops.constructs(prog, g) for g in prog.closures_of(f.path))
        takes_value = any("eval::value::SourcedValue" == f.locals[i] for i in range(1, f.arg_count + 1))
        if builds and takes_value:
            out.append(f)
    return out


def binder_module(prog):
    fs = binder_fns(prog)
    if fs:
        return fs[0].module
    return "eval::bind"


def scope_module(prog):
    a = prog.adts.get("eval::scope::ScopeStack")
    return a["module"] if a and a.get("module") else "eval::scope"


SCOPESTACK = "eval::scope::ScopeStack"


def scope_pushers(prog):
    """Scope-module functions that take a chain by reference and return a
    chain onto which they pushed a scope cell (today: new_from_push)."""
    sm = scope_module(prog)
    out = []
    for f in prog.hand_fns():
        if f.is_closure or f.from_expansion or not f.module.startswith(sm) or not f.locals:
            continue
        if f.locals[0] != SCOPESTACK:
            continue
        ptys = f.locals[1:f.arg_count + 1]
        if not any(t.replace("&mut ", "&") == "&" + SCOPESTACK for t in ptys):
            continue
        if any((c.res or "").endswith("::push") for c in f.calls()):
            out.append(f)
    return out


def scope_root_ctors(prog):
    """Scope-module functions that build a chain from nothing (no chain
    parameter): the empty root."""
    sm = scope_module(prog)
    out = []
    for f in prog.hand_fns():
        if f.is_closure or f.from_expansion or not f.module.startswith(sm) or not f.locals:
            continue
        if f.locals[0] != SCOPESTACK:
            continue
        ptys = f.locals[1:f.arg_count + 1]
        if any(SCOPESTACK in t for t in ptys):
            continue
        out.append(f)
    return out


def value_module(prog):
    a = prog.adts.get("eval::value::Value")
    return a["module"] if a and a.get("module") else "eval::value"


def ctor_variants(prog, path):
    """Value variants built by a value-module constructor function (empty set
    for anything else)."""
    g = prog.fns.get(path or "")
    if g is None or not g.full or not g.module.startswith(value_module(prog)):
        return set()
    return {kd["variant"] for bb, i, pl, kd, ao, sp in g.aggregates("eval::value::Value")}


BUILTIN_SIG = ("std::option::Option<eval::value::SourcedValue>",
               "std::vec::Vec<eval::value::SourcedValue>")


def is_builtin_fn(f):
    """Has the BuiltinFunc signature fn(Option<SourcedValue>, Vec<SourcedValue>)
    -> Result<SourcedValue, Error>."""
    return (not f.is_closure and f.arg_count == 2 and len(f.locals) > 2
            and f.locals[1] == BUILTIN_SIG[0] and f.locals[2] == BUILTIN_SIG[1]
            and f.locals[0].startswith("std::result::Result<eval::value::SourcedValue"))
