"""C10 — `==` structural, `===` identity, comparing never mutates."""
import mir
import ops
import locks
from ops import BINOP, VALUE, ERR, KINDS
from framework import RuleResult
import c16
import c02


def helpers(ctx):
    """(operator fn, PairTable, {op: (helper fn, acceptance, in_order)})."""
    def mk():
        prog = ctx.prog
        cands = ops.find_operator_fn(prog)
        if len(cands) != 1:
            return None
        f, op_p, lhs_p, rhs_p = cands[0]
        pt = ops.PairTable(prog, f, [(op_p, BINOP), (lhs_p, VALUE), (rhs_p, VALUE)])
        d = {}
        for op in ("Eq", "Ne", "RefEq", "RefNe"):
            d[op] = c16.delegated_table(prog, f, pt, op, lhs_p, rhs_p)
        return f, pt, d, lhs_p, rhs_p
    return ctx.memo("c10_helpers", mk)


def rule_R10_1(ctx):
    prog = ctx.prog
    r = RuleResult("R10.1", "comparison is read-only: nothing reachable from "
                   "the comparison helpers takes a mutable view of a container",
                   "a comparison that writes would change an operand")
    h = helpers(ctx)
    if h is None or not all(h[2].values()):
        r.anchor_missing("comparison helpers delegated from the operator function")
        return r
    f, pt, d, _, _ = h

    def direct(g):
        out = set()
        if not g.full:
            return out
        for c in g.calls():
            full = c.res_full or ""
            if "std::ops::DerefMut" in (c.declared or "") and "MutexGuard" in full:
                out.add("writes_container")
            if (c.declared or "") in ("std::sync::Mutex::<T>::get_mut",
                                      "std::sync::Arc::<T>::get_mut",
                                      "std::sync::Arc::<T>::make_mut"):
                out.add("writes_container")
        return out
    eff = ctx.memo("write_eff", lambda: prog.summarize(direct))
    g_all = sorted(set(x.direct.path for x in d.values()))
    graph = prog.call_graph()
    for gp in g_all:
        reach = prog.reachable_from([gp], graph)
        local_reach = sorted(p for p in reach if p in prog.fns and prog.fns[p].full)
        r.inst("%s reaches %d local functions: %s" % (gp, len(local_reach), local_reach[:8]))
        if "writes_container" in eff.get(gp, set()):
            bad = [p for p in local_reach if "writes_container" in direct(prog.fns[p])]
            r.fail("%s | writes-container via=%s" % (gp, ",".join(bad[:3])),
                   "the comparison helper %s can reach a mutable deref of a "
                   "container guard (%s)" % (gp, bad[:3]))
        else:
            r.ok()
    return r


def rule_R10_2(ctx):
    h = helpers(ctx)
    if h is None or not all(h[2].values()):
        r = RuleResult("R10.2", "no lock conflict in comparison", "")
        r.anchor_missing("comparison helpers")
        return r
    prog = ctx.prog
    graph = prog.call_graph()
    roots = sorted(set(x.direct.path for x in h[2].values()))
    reach = prog.reachable_from(roots, graph)
    r = c02.rule_R02_1(ctx, restrict_fns=reach, rule_id="R10.2")
    r.title = "comparison of values that share sub-values cannot hit a held lock (R02.1 on %s)" % roots
    r.necessary_for = "a guard held across the recursive comparison aborts on shared substructure"
    r.inst("comparison functions analysed: %s" % sorted(p for p in reach if p in prog.fns and prog.fns[p].full and not prog.fns[p].from_expansion)[:10])
    return r


def _polarity(f, at_, region, op, want):
    """(negated?, built from `want`?) of the Value::Bool built for operator
    `op`, or None.  `at_(bb)` gives the operators with which control reaches
    bb."""
    blocks = {bb for bb in region if at_(bb) == {op}}
    shared = {bb for bb in region if op in at_(bb)} - blocks
    found = None
    for bb in sorted(blocks) + sorted(shared):
        if found is not None and bb in shared:
            break
        for s in f.stmts(bb):
            if s[0] == "=" and s[2][0] == "agg" and s[2][1].get("k") == "adt" \
                    and s[2][1]["adt"] == VALUE and s[2][1]["variant"] == "Bool":
                o = s[2][2][0]
                is_neg = False
                for _ in range(4):
                    if not mir.is_place_operand(o):
                        break
                    pl = mir.op_place(o)
                    if pl[1]:
                        break
                    sd = f.single_def(pl[0])
                    multi = sd is None
                    if sd is None:
                        # assigned on several paths (`if matches!(op, Eq) { v }
                        # else { !v }`): the definition made on this operator's path
                        ds = [d_ for d_ in f.defs().get(pl[0], []) if at_(d_[0]) == {op}]
                        sd = ds[0] if len(ds) == 1 else None
                    if sd is None or sd[2] != "rv":
                        break
                    if sd[3][0] == "un" and sd[3][1] == "Not":
                        is_neg = not is_neg
                        o = sd[3][2]
                    elif sd[3][0] == "use" and mir.is_place_operand(sd[3][1]) and multi:
                        o = sd[3][1]
                    else:
                        break
                src = f.canon_op(o)
                from_helper = src == want
                if not from_helper and want and want[0][0] == "call":
                    # through a re-wrapping `Ok(v)` and a `?` (the helper's
                    # result handed on by an inlined closure)
                    cs_ = ops.try_chain_source(f, o)
                    from_helper = cs_ is not None and cs_.bb == want[0][1]
                found = (is_neg, from_helper)
    return found


def _no_helpers(call):
    return False


def _map_polarity(prog, f, call):
    """(negated?, from the helper's result?) of the Value::Bool that a
    `.map(..)` on the result of `call` builds: `.map(Value::Bool)` or
    `.map(|v| Value::Bool(!v))`."""
    for u in ops.forward_users(f, call):
        if (u.res or "").split("::")[-1] != "map" or len(u.args) < 2:
            continue
        k = mir.op_const(u.args[1])
        if k is not None and k.get("fn") == VALUE + "::Bool":
            return (False, True)
        if not mir.is_place_operand(u.args[1]):
            continue
        cpu = f.canon_op(u.args[1])
        if cpu[0][0] != "agg":
            continue
        kd_ = f.stmts(cpu[0][1])[cpu[0][2]][2][1]
        hcl = prog.fns.get(kd_.get("def", "")) if kd_.get("k") == "closure" else None
        if hcl is None or not hcl.full or hcl.natural_loops():
            continue
        bools = list(hcl.aggregates(VALUE, "Bool"))
        if len(bools) != 1:
            return None
        o = bools[0][4][0]
        is_neg = False
        for _ in range(6):
            if not mir.is_place_operand(o) or mir.op_place(o)[1]:
                break
            sd = hcl.single_def(mir.op_place(o)[0])
            if sd is None or sd[2] != "rv":
                break
            if sd[3][0] == "un" and sd[3][1] == "Not":
                is_neg = not is_neg
                o = sd[3][2]
            elif sd[3][0] == "use":
                o = sd[3][1]
            else:
                break
        return (is_neg, mir.is_place_operand(o) and hcl.canon_op(o) == (("arg", 2),))
    return None


def rule_R10_3(ctx):
    prog = ctx.prog
    r = RuleResult("R10.3", "`!=`/`!==` are the negation of the one result "
                   "computed for `==`/`===`",
                   "a second traversal for != could disagree with ==")
    h = helpers(ctx)
    if h is None:
        r.anchor_missing("operator function")
        return r
    f, pt, d, lhs_p, rhs_p = h
    for pos, neg, payload in (("Eq", "Ne", "Ok"), ("RefEq", "RefNe", "Some")):
        if d[pos] is None:
            r.anchor_missing("helper for %s" % pos)
            continue
        g = d[pos].direct
        region = {bb for bb, st in pt.vf.state.items()
                  if st and {t[0] for t in st} <= {pos, neg}}
        calls = [c for c in f.calls() if c.bb in region and not c.is_ptr and c.res == g.path]
        r.inst("%s/%s: %d call(s) to %s" % (pos, neg, len(calls), g.path))
        if len(calls) == 2:
            # one call per operator, to the same helper on the same operands:
            # the same (read-only, R10.1) traversal, so the two results agree
            per = {}
            for c_ in calls:
                a_ = {t[0] for t in pt.vf.at(c_.bb)}
                if len(a_) == 1:
                    per[next(iter(a_))] = c_
            same_args = len(per) == 2 and all(
                len(c_.args) == 2 and ops.same_value(f.canon_op(c_.args[0]), lhs_p)
                and ops.same_value(f.canon_op(c_.args[1]), rhs_p) for c_ in per.values())
            if same_args:
                r.inst("%s/%s: one call each to %s on (lhs, rhs)" % (pos, neg, g.path))
                for op, negated in ((pos, False), (neg, True)):
                    c_ = per[op]
                    found = _map_polarity(prog, f, c_)
                    if found is None:
                        want_ = (("call", c_.bb), ("d", payload), ("f", 0))
                        found = _polarity(f, lambda b_: {t[0] for t in pt.vf.at(b_)}, region, op, want_)
                    if found is None:
                        r.fail("%s | op=%s no-bool-result" % (f.path, op),
                               "no boolean result is built specifically for %s" % op)
                    elif found == (negated, True):
                        r.ok()
                    else:
                        r.fail("%s | op=%s negated=%s from-helper=%s" % (f.path, op, found[0], found[1]),
                               "%s must yield %sthe helper's result" % (op, "the negation of " if negated else ""))
                continue
        if len(calls) != 1:
            r.fail("%s | %s/%s helper-calls=%d" % (f.path, pos, neg, len(calls)),
                   "%s and %s must share one call to %s" % (pos, neg, g.path))
            continue
        cb = calls[0].bb
        want = (("call", cb), ("d", payload), ("f", 0))
        # the polarity may be decided inside a closure handed to `.map(..)`
        # on the helper's result (`ref_eq(l, r).map(|v| Value::Bool(if
        # matches!(op, RefEq) { v } else { !v }))`)
        scope = (f, lambda b_: {t[0] for t in pt.vf.at(b_)}, region, want)
        direct = any(s_[0] == "=" and s_[2][0] == "agg" and s_[2][1].get("adt") == VALUE
                     and s_[2][1].get("variant") == "Bool"
                     for b_ in region for s_ in f.stmts(b_))
        if not direct:
            for u in ops.forward_users(f, calls[0]):
                if (u.res or "").split("::")[-1] != "map" or len(u.args) < 2:
                    continue
                cpu = f.canon_op(u.args[1])
                if cpu[0][0] != "agg":
                    continue
                kd_ = f.stmts(cpu[0][1])[cpu[0][2]][2][1]
                hcl = prog.fns.get(kd_.get("def", "")) if kd_.get("k") == "closure" else None
                if hcl is None or not hcl.full:
                    continue
                # (the operator test may be a small classifier, `negates(op)`)
                import inline
                hcl = inline.view(prog, hcl, pick=_no_helpers, classifiers=True)
                opcp = None
                for b_ in range(len(hcl.blocks)):
                    if hcl.is_cleanup(b_) or hcl.term(b_)["k"] != "switch":
                        continue
                    i_ = hcl.switch_info(b_)
                    if i_ and i_["kind"] == "discr" and i_["enum"] == BINOP:
                        opcp = hcl.canon(i_["place"])
                if opcp is None:
                    continue
                hvf = mir.VariantFlow(hcl, [(opcp, BINOP)], init={(pos,), (neg,)})
                scope = (hcl, lambda b_, hvf=hvf: {t[0] for t in hvf.at(b_)},
                         set(hcl.reachable()), (("arg", 2),))
                r.inst("%s/%s: polarity decided in closure %s" % (pos, neg, hcl.path))
        sf, at_, sregion, swant = scope
        for op, negated in ((pos, False), (neg, True)):
            found = _polarity(sf, at_, sregion, op, swant)
            if found is None:
                r.fail("%s | op=%s no-bool-result" % (f.path, op),
                       "no boolean result is built specifically for %s" % op)
            elif found == (negated, True):
                r.ok()
            else:
                r.fail("%s | op=%s negated=%s from-helper=%s" % (f.path, op, found[0], found[1]),
                       "%s must yield %sthe helper's result" % (op, "the negation of " if negated else ""))
    return r


def rule_R10_4(ctx):
    prog = ctx.prog
    r = RuleResult("R10.4", "a length-equality guard dominates the "
                   "element-wise loops of list and object comparison",
                   "without it {a:1} == {a:1,b:2} and its mirror disagree")
    h = helpers(ctx)
    if h is None or h[2]["Eq"] is None:
        r.anchor_missing("structural comparison helper")
        return r
    g = h[2]["Eq"][0]
    gt = ops.PairTable(prog, g, [((("arg", 1), "*"), VALUE), ((("arg", 2), "*"), VALUE)])
    loops = g.natural_loops()
    for K in ("List", "Object"):
        ex = gt.exclusive_blocks((K, K))
        hdrs = [hd for hd in loops if hd in ex]
        r.inst("%s: %s arm has %d loop(s)" % (g.path, K, len(hdrs)))
        if not hdrs:
            r.unproven.append("%s arm: no loop found (comparison not element-wise?)" % K)
            continue
        guard = None
        for bb in sorted(ex):
            if g.term(bb)["k"] != "switch":
                continue
            info = g.switch_info(bb)
            if not info or info["kind"] != "bool":
                continue
            rv = g.bool_def(info["on"])
            if not rv or rv[0] != "bin" or rv[1] not in ("Ne", "Eq"):
                continue
            roots = []
            for o in (rv[2], rv[3]):
                cp = g.canon_op(o)
                if cp[0][0] == "call":
                    c = g.call_at(cp[0][1])
                    if c is not None and (c.res or "").endswith("::len") and c.args:
                        roots.append(g.canon_op(c.args[0]))
            if len(roots) == 2 and roots[0] != roots[1]:
                t_true = info["otherwise"]
                t_false = None
                for v, tgt in info["cases"]:
                    if v is False:
                        t_false = tgt
                    if v is True:
                        t_true = tgt
                if t_false is None:
                    t_false = info["otherwise"]
                uneq = t_true if rv[1] == "Ne" else t_false
                guard = (bb, uneq)
        if guard is None:
            r.fail("%s | kind=%s no-length-guard" % (g.path, K),
                   "the %s arm compares element-wise without first "
                   "comparing the two lengths" % K, where=mir.span_loc(g.span))
            continue
        gb, uneq = guard
        dom = all(g.dominates(gb, hd) for hd in hdrs)
        false_ret = False
        cur = uneq
        for _ in range(12):   # straight-line chain (drops of temporaries) to the answer
            for s in g.stmts(cur):
                if s[0] == "=" and s[2][0] == "agg" and s[2][1].get("k") == "adt" \
                        and s[2][1]["adt"] == "std::result::Result" and s[2][1]["variant"] == "Ok" \
                        and mir.const_val(s[2][2][0]) is False:
                    false_ret = True
            nx = g.succs(cur)
            if false_ret or len(nx) != 1:
                break
            cur = nx[0]
        if dom and false_ret and not any(uneq in loops[hd] for hd in hdrs):
            r.ok()
        else:
            r.fail("%s | kind=%s length-guard dominates=%s returns-false=%s"
                   % (g.path, K, dom, false_ret),
                   "the length comparison in the %s arm must dominate the "
                   "loop and answer false on unequal lengths" % K,
                   where=mir.span_loc(g.span))
    return r


def rule_R10_5(ctx):
    prog = ctx.prog
    r = RuleResult("R10.5", "exactly the six same-kind pairs compare; any "
                   "other pair (incl. two functions) is an error naming both "
                   "types in order; identity accepts list/object/func pairs",
                   "a silent boolean for mismatched kinds hides a type error")
    h = helpers(ctx)
    if h is None or h[2]["Eq"] is None or h[2]["RefEq"] is None:
        r.anchor_missing("comparison helpers")
        return r
    g, acc, _ = h[2]["Eq"]
    exp = c16.EXPECTED["Eq"]
    r.inst("%s accepts %s" % (g.path, sorted(acc)))
    for a in KINDS:
        for b in KINDS:
            if ((a, b) in acc) == ((a, b) in exp):
                r.ok()
            else:
                r.fail("%s | pair=%s,%s accepted=%s" % (g.path, a, b, (a, b) in acc),
                       "structural comparison of (%s, %s): accepted=%s, "
                       "documented=%s" % (a, b, (a, b) in acc, (a, b) in exp))
    g2, acc2, _ = h[2]["RefEq"]
    exp2 = c16.EXPECTED["RefEq"]
    r.inst("%s accepts %s" % (g2.path, sorted(acc2)))
    for a in KINDS:
        for b in KINDS:
            if ((a, b) in acc2) == ((a, b) in exp2):
                r.ok()
            else:
                r.fail("%s | pair=%s,%s accepted=%s" % (g2.path, a, b, (a, b) in acc2),
                       "identity comparison of (%s, %s): accepted=%s, "
                       "documented=%s" % (a, b, (a, b) in acc2, (a, b) in exp2))
    # the mismatch arm names lhs type then rhs type
    gt = ops.PairTable(prog, g, [((("arg", 1), "*"), VALUE), ((("arg", 2), "*"), VALUE)])
    n = 0
    for bb, i, pl, kd, aops, sp in g.aggregates("std::result::Result", "Err"):
        if ("Int", "Str") not in gt.vf.at(bb):
            continue   # re-wrap of a nested error, not the mismatch arm
        n += 1
        cp = g.canon_op(aops[0])
        ok = False
        if cp[0][0] == "agg":
            st = g.stmts(cp[0][1])[cp[0][2]]
            tops = st[2][2]
            if len(tops) == 3:
                srcs = []
                for o in tops[1:]:
                    c2 = g.canon_op(o)
                    # type_name(x), type_name(x).to_string(), ...: follow the
                    # receiver chain down to the value that is named
                    for _ in range(4):
                        if c2[0][0] != "call":
                            break
                        c = g.call_at(c2[0][1])
                        if c is None or not c.args:
                            break
                        c2 = g.canon_op(c.args[0])
                    if c2[0][0] != "call":
                        srcs.append(c2)
                if len(srcs) == 2 and ops.same_value(srcs[0], (("arg", 1),)) \
                        and ops.same_value(srcs[1], (("arg", 2),)):
                    ok = True
        if ok:
            r.ok()
        else:
            r.fail("%s | mismatch-arm type order" % g.path,
                   "the mismatch error does not name the lhs type then the "
                   "rhs type", where=mir.span_loc(sp))
    r.require_floor("mismatch arm of the structural comparison", n, 1)
    return r


def _arc_kind(ty):
    if "std::vec::Vec<eval::value::SourcedValue" in ty:
        return "List"
    if "std::collections::BTreeMap<std::string::String, eval::value::SourcedValue" in ty:
        return "Object"
    if "eval::value::Func" in ty:
        return "Func"
    return None


def rule_R10_6(ctx):
    prog = ctx.prog
    r = RuleResult("R10.6", "structural comparison uses identity only as a "
                   "shortcut to `true` between two lists or two objects and "
                   "never observes addresses",
                   "an answer that depends on aliasing (or an identity "
                   "shortcut on functions) makes == differ between values "
                   "of equal shape, or accepts kinds it must reject")
    h = helpers(ctx)
    if h is None or h[2]["Eq"] is None:
        r.anchor_missing("structural comparison helper")
        return r
    direct = h[2]["Eq"].direct
    graph = prog.call_graph()
    eff = ctx.memo("lock_eff", lambda: locks.lock_effects(prog))
    reach = [prog.fns[p] for p in prog.reachable_from([direct.path], graph)
             if p in prog.fns and prog.fns[p].full and not prog.fns[p].from_expansion
             and not prog.fns[p].generated]

    def is_identity_helper(g):
        if g.path == direct.path:
            return False
        rs = prog.reachable_from([g.path], graph)
        return any("::ptr_eq" in p for p in rs) and not eff.get(g.path)
    ident = {g.path for g in reach if is_identity_helper(g)}
    S = [g for g in reach if g.path not in ident]
    r.inst("structural comparison functions: %s; identity helpers: %s"
           % (sorted(g.path for g in S), sorted(ident)))
    allowed = {("List", "List"), ("Object", "Object")}
    n_sites = 0
    for f in S:
        for c in f.calls():
            if c.is_ptr:
                continue
            res = c.res or ""
            if (res.endswith("::as_ptr") and "Arc" in res) or res.endswith("Arc::<T>::into_raw") \
                    or res.startswith("std::ptr::addr") or res.endswith("::expose_provenance"):
                r.fail("%s | observes address via %s" % (f.path, res.split("::")[-1]),
                       "%s, part of the structural comparison, obtains a "
                       "container's address (%s): the answer can depend on "
                       "aliasing" % (f.path, res), where=c.loc)
                continue
            is_id = res in ident or "::ptr_eq" in res
            if not is_id:
                continue
            n_sites += 1
            kinds = None
            ks = [_arc_kind(t) for t in c.argtys[:2]]
            if len(ks) == 2 and all(ks):
                kinds = {(ks[0], ks[1])}
            elif len(c.argtys) >= 2 and all("eval::value::Value" in t for t in c.argtys[:2]):
                paths = []
                for a in c.args[:2]:
                    cp = f.canon_op(a)
                    cp = tuple(p for p in cp if p != "&")
                    paths.append(cp)
                if all(p and p[0][0] == "arg" for p in paths):
                    tr = [(paths[0] + (("*",) if paths[0][-1:] != ("*",) else ()), VALUE),
                          (paths[1] + (("*",) if paths[1][-1:] != ("*",) else ()), VALUE)]
                    sw = ops.arg_rooted_switches(f)
                    if all(t[0] in sw for t in tr):
                        vf = mir.VariantFlow(f, tr)
                        kinds = set(vf.at(c.bb))
                if kinds is None:
                    kinds = {(a, b) for a in KINDS for b in KINDS}
            else:
                kinds = {(a, b) for a in KINDS for b in KINDS}
            # only pairs the identity helper can answer true for matter
            ref_acc = h[2]["RefEq"][1] if h[2]["RefEq"] is not None else set()
            risky = sorted(k for k in kinds if k in ref_acc and k not in allowed)
            r.inst("%s: identity test via %s on kinds %s" % (
                f.path, res.split("::")[-1], sorted(kinds)[:4] if len(kinds) < 10 else "any"))
            if risky:
                r.fail("%s | identity-shortcut kinds=%s" % (f.path, ",".join("%s/%s" % k for k in risky)),
                       "%s applies an identity test inside the structural "
                       "comparison where the operands can be %s; two "
                       "aliases of such values would compare equal instead "
                       "of being rejected" % (f.path, risky), where=c.loc)
                continue
            # the identical edge must answer true
            ok_true = None
            if c.target is not None and f.term(c.target)["k"] == "switch":
                info = f.switch_info(c.target)
                if info and info["kind"] == "bool":
                    t_true = info["otherwise"]
                    for v, tgt in info["cases"]:
                        if v is True:
                            t_true = tgt
                    cur = t_true
                    ok_true = False
                    for _ in range(8):
                        for s_ in f.stmts(cur):
                            if s_[0] == "=" and s_[2][0] == "agg" and s_[2][1].get("adt") == "std::result::Result" \
                                    and s_[2][1]["variant"] == "Ok" and mir.const_val(s_[2][2][0]) is True:
                                ok_true = True
                        nx = f.succs(cur)
                        if ok_true or len(nx) != 1:
                            break
                        cur = nx[0]
            if ok_true is False:
                r.fail("%s | identity result not a shortcut to true" % f.path,
                       "in %s the outcome 'same cell' does not directly "
                       "answer true" % f.path, where=c.loc)
            else:
                r.ok()
    if not n_sites and not r.violations:
        r.ok()
    return r


def run(ctx):
    return [rule_R10_1(ctx), rule_R10_2(ctx), rule_R10_3(ctx), rule_R10_4(ctx),
            rule_R10_5(ctx), rule_R10_6(ctx)]


META = {
    "level": "other",
    "technique": "pair decision tables from MIR switches, write-effect "
                 "summaries over the call graph, guard liveness on the "
                 "comparison functions, dominance of the length guard",
    "trusted_base": ["rustc MIR and callee resolution"],
    "assumptions": ["reflexivity/symmetry/transitivity as value laws are not "
                    "derived; the structural necessary conditions are"],
    "explanation": "Decides that comparison cannot write a container, cannot "
                   "hit a held lock on shared substructure, computes != as "
                   "the negation of one == result, guards element-wise loops "
                   "by a length test, and rejects exactly the documented "
                   "kind pairs with an error naming both types.",
}
