"""C05 — containers are shared by reference; building operations return
fresh ones."""
import re

import anchors

import mir
import ops
import prov
import locks
from ops import VALUE
from framework import RuleResult

RAWEXPR = "ast::RawExpr"


def is_container_guard(full):
    return "MutexGuard" in full and ("std::vec::Vec<eval::value::SourcedValue" in full
                                     or "std::collections::BTreeMap<std::string::String, eval::value::SourcedValue" in full)


def _only_called_from(prog, g, mod, depth=0):
    """Every (transitive, depth <= 3) caller of g is in module `mod`; g is not
    used as a function value."""
    if depth > 3 or g.path in prog.addr_taken():
        return False
    cs = prog.callers_of(g.path)
    if not cs:
        return False
    for c in cs:
        h = c.fn.root_fn()
        if h.path == g.path:
            continue
        if h.module.startswith(mod) and not h.generated:
            continue
        if not _only_called_from(prog, h, mod, depth + 1):
            return False
    return True


def rule_R05_1(ctx):
    prog = ctx.prog
    r = RuleResult("R05.1", "only the binder module takes a mutable view of "
                   "a list/object cell's contents",
                   "any other writer lets +, spread, reads, comparison, "
                   "iteration or printing change an operand in place")
    sites = []
    for f in prog.full_fns():
        for c in f.calls():
            d = c.declared or ""
            full = c.res_full or ""
            if d == "std::ops::DerefMut::deref_mut" and is_container_guard(full):
                sites.append((f, c, "DerefMut on the guard"))
            if d in ("std::sync::Mutex::<T>::get_mut", "std::sync::Arc::<T>::get_mut",
                     "std::sync::Arc::<T>::make_mut", "std::sync::Mutex::<T>::into_inner") \
                    and ("eval::value::SourcedValue" in full):
                sites.append((f, c, d))
    r.require_floor("mutable accesses to container contents", len(sites), 2)
    import anchors
    bmod = anchors.binder_module(prog)
    r.inst("binder module (holds the RawExpr target table): %s" % bmod)
    for f, c, what in sites:
        r.inst("%s: %s" % (f.path, what))
        if f.module.startswith(bmod) and not f.generated:
            r.ok()
        elif _only_called_from(prog, f.root_fn(), bmod):
            # a container helper that only the binder calls (`container::
            # set_list_item` behind the binder's bounds test) writes on the
            # binder's behalf
            r.inst("%s: called only from the binder module" % f.path)
            r.ok()
        elif f.root_fn().path not in anchors.evaluation_reach(prog):
            # set-up code (registering builtins/type functions before the
            # first statement runs): no operation of a script can reach it
            r.inst("%s: not reachable from evaluation (set-up code)" % f.path)
            r.ok()
        else:
            r.fail("%s | mutable container access" % f.root_fn().path,
                   "%s obtains a mutable view of a list/object cell (%s); "
                   "only assignment targets in the binder module may" % (f.path, what),
                   where=c.loc)
    return r


def rule_R05_2(ctx):
    prog = ctx.prog
    r = RuleResult("R05.2", "`===` is pointer identity of the cells and "
                   "inspects no contents",
                   "an identity test that reads contents would equate "
                   "distinct containers or lock them")
    import c10
    h = c10.helpers(ctx)
    if h is None or h[2]["RefEq"] is None:
        r.anchor_missing("identity comparison helper")
        return r
    g = h[2]["RefEq"][0]
    graph = prog.call_graph()
    reach = prog.reachable_from([g.path], graph)
    eff = ctx.memo("lock_eff", lambda: locks.lock_effects(prog))
    ptr_eq = [p for p in reach if p.endswith("Arc::<T, A>::ptr_eq") or p.endswith("Arc::<T>::ptr_eq") or "::ptr_eq" in p]
    r.inst("%s reaches %s; may lock: %s" % (g.path, ptr_eq, sorted(eff.get(g.path, set()))))
    if ptr_eq:
        r.ok()
    else:
        r.fail("%s | no ptr_eq" % g.path, "the identity helper does not reach Arc::ptr_eq")
    if not eff.get(g.path):
        r.ok()
    else:
        r.fail("%s | identity locks contents" % g.path,
               "the identity helper may lock %s" % sorted(eff[g.path]))
    callers = set()
    for f in prog.full_fns(generated=False):
        for c in f.calls():
            if "::ptr_eq" in (c.res or ""):
                callers.add(f.path)
    r.inst("Arc::ptr_eq is called from %s" % sorted(callers))
    return r


def fresh_sites(prog):
    """Value::List / Value::Object aggregates outside derive expansions, with
    the canonical origin of their Arc operand."""
    out = []
    for f in prog.hand_fns():
        if f.from_expansion:
            continue
        for bb, i, pl, kd, aops, sp in f.aggregates(VALUE):
            if kd["variant"] not in ("List", "Object"):
                continue
            cp = f.canon_op(aops[0])
            fresh = False
            if cp[0][0] == "call":
                c = f.call_at(cp[0][1])
                if c is not None and (c.declared or "") == "std::sync::Arc::<T>::new":
                    fresh = True
                elif c is not None and not c.is_ptr and c.res in anchors.cell_allocators(prog):
                    fresh = True     # a helper that returns a cell it has just allocated
            out.append((f, kd["variant"], fresh, sp, cp))
    return out


def rule_R05_3(ctx):
    prog = ctx.prog
    r = RuleResult("R05.3", "every list/object value constructed outside "
                   "derive(Clone) wraps a freshly allocated cell",
                   "wrapping an existing Arc would alias an operand where a "
                   "new container is documented")
    sites = fresh_sites(prog)
    # (a clean-up may centralise construction in one constructor per kind, so
    # the floor is one site for each of the two kinds, not today's count)
    r.require_floor("Value::List construction sites", len([x for x in sites if x[1] == "List"]), 1)
    r.require_floor("Value::Object construction sites", len([x for x in sites if x[1] == "Object"]), 1)
    for f, v, fresh, sp, cp in sites:
        r.inst("%s: Value::%s from %s" % (f.path, v, "Arc::new" if fresh else cp))
        if fresh:
            r.ok()
        else:
            r.fail("%s | Value::%s from existing cell" % (f.path, v),
                   "%s builds a %s value around an Arc that is not created "
                   "there (origin %s)" % (f.path, v, cp), where=mir.span_loc(sp))
    return r


def rule_R05_4(ctx):
    prog = ctx.prog
    r = RuleResult("R05.4", "builder expressions (list/object literals, "
                   "ranges, range reads, list +) return a fresh container",
                   "returning an operand's cell makes later mutations of the "
                   "result visible through the operand")
    ident = set(prov.IDENTITY_CALLS) - {"std::sync::Arc::<T>::new", "std::sync::Mutex::<T>::new"}
    pv = prov.Prov(prog, identity=ident, foreign="stop", field_based=False, follow_params=False)
    # expression evaluator: switches on a RawExpr parameter and returns SourcedValue
    evs = []
    for f in prog.hand_fns():
        if f.is_closure or f.from_expansion or not f.locals:
            continue
        if "eval::value::SourcedValue" not in f.locals[0]:
            continue
        sw = ops.arg_rooted_switches(f)
        ps = [cp for cp, e in sw.items() if e == RAWEXPR]
        if ps:
            evs.append((f, ps[0]))
    if not r.require_floor("expression evaluator", len(evs), 1):
        return r
    f, path = evs[0]
    vf = mir.VariantFlow(f, [(path, RAWEXPR)])
    F_v = ("f", 0, "eval::value::SourcedValue", "SourcedValue")
    for arm, kinds in (("List", ["List"]), ("Object", ["Object"]), ("Range", ["List"]),
                       ("RangeIndex", ["List"])):
        found = 0
        for bb, i, pl, kd, aops, sp in f.aggregates("std::result::Result", "Ok"):
            if pl[0] not in f.return_locals() or {t[0] for t in vf.at(bb)} != {arm}:
                continue
            for k in kinds:
                pi = (F_v, ("d", k), ("f", 0, VALUE, k))
                o = pv.origins(f, aops[0], pi)
                arcs = [x for x in o if x[0] == "call" and x[3] == "std::sync::Arc::<T>::new"]
                others = [x for x in o if not (x[0] == "call" and x[3] == "std::sync::Arc::<T>::new")
                          and x[0] not in ("const",)]
                found += 1
                r.inst("%s arm %s: %s cell origins: %d Arc::new, others %s"
                       % (f.path, arm, k, len(arcs), sorted(set((x[0], x[3] if x[0] == "call" else x[1]) for x in others))[:4]))
                if any(x[0] == "unknown" for x in o):
                    r.unproven.append("%s arm %s: %s cell origin not fully resolved (%s)"
                                      % (f.path, arm, k, sorted(set(x[1] for x in o if x[0] == "unknown"))[:2]))
                elif arcs and not others:
                    r.ok()
                elif not arcs and not others:
                    pass    # this return does not carry a value of that kind
                else:
                    r.fail("%s | arm=%s returns existing %s cell" % (f.path, arm, k),
                           "the %s expression can return a %s whose cell was "
                           "not allocated for this result (origins: %s)"
                           % (arm, k, sorted(set(str(x[:4]) for x in others))[:3]),
                           where=mir.span_loc(sp))
        if not found:
            r.unproven.append("arm %s: no direct Ok(..) return found" % arm)
    # list `+` (and `+=`, which shares the operator function): the result
    # cell is freshly allocated for every pair of list operands
    cands = ops.find_operator_fn(prog)
    if len(cands) == 1:
        of, op_p, lhs_p, rhs_p = cands[0]
        pt = ops.PairTable(prog, of, [(op_p, "ast::BinaryOp"), (lhs_p, VALUE), (rhs_p, VALUE)])
        tup = ("Sum", "List", "List")
        n_ret = 0
        for bb, i, pl, kd, aops, sp in of.aggregates("std::result::Result", "Ok"):
            if pl[0] not in of.return_locals() or tup not in pt.vf.at(bb) or len(pt.vf.at(bb)) > 3:
                continue
            n_ret += 1
            pi = (("d", "List"), ("f", 0, VALUE, "List"))
            o = pv.origins(of, aops[0], pi)
            arcs = [x for x in o if x[0] == "call" and x[3] == "std::sync::Arc::<T>::new"]
            others = [x for x in o if not (x[0] == "call" and x[3] == "std::sync::Arc::<T>::new")
                      and x[0] not in ("const",)]
            r.inst("%s: list + returns a cell from %d Arc::new, others %s"
                   % (of.path, len(arcs), sorted(set((x[0], x[3] if x[0] == "call" else x[1]) for x in others))[:3]))
            if any(x[0] == "unknown" for x in o):
                r.unproven.append("%s: origin of the list + result not fully resolved" % of.path)
            elif arcs and not others:
                r.ok()
            else:
                r.fail("%s | list concatenation returns an existing cell" % of.path,
                       "`+` on two lists can return a list whose cell was "
                       "not allocated for the result (origins: %s): the "
                       "result aliases an operand"
                       % sorted(set(str(x[:4]) for x in others))[:3], where=mir.span_loc(sp))
        # results that are returned as the value of a call (a helper such as
        # `value::concat(l, r).ok_or_else(..)`) rather than built in place
        for c in of.calls():
            if c.dst is None or c.dst[1] or c.dst[0] not in of.return_locals():
                continue
            if tup not in pt.vf.at(c.bb) or (c.declared or "").endswith("FromResidual::from_residual"):
                continue
            n_ret += 1
            pi = (("d", "Ok"), ("f", 0, "std::result::Result", "Ok"), ("d", "List"), ("f", 0, VALUE, "List"))
            o = pv.origins_of_call(of, c, pi)
            arcs = [x for x in o if x[0] == "call" and x[3] == "std::sync::Arc::<T>::new"]
            others = [x for x in o if not (x[0] == "call" and x[3] == "std::sync::Arc::<T>::new")
                      and x[0] not in ("const",)]
            r.inst("%s: list + may return the result of %s: %d Arc::new, others %s"
                   % (of.path, c.res, len(arcs), sorted(set((x[0], x[3] if x[0] == "call" else x[1]) for x in others))[:3]))
            if any(x[0] == "unknown" for x in o):
                r.unproven.append("%s: origin of the list + result (via %s) not fully resolved" % (of.path, c.res))
            elif not arcs and not others:
                pass      # this call never yields a list
            elif arcs and not others:
                r.ok()
            else:
                r.fail("%s | list concatenation returns an existing cell" % of.path,
                       "`+` on two lists can return (through %s) a list whose "
                       "cell was not allocated for the result (origins: %s): "
                       "the result aliases an operand"
                       % (c.res, sorted(set(str(x[:4]) for x in others))[:3]), where=c.loc)
        if not n_ret:
            r.unproven.append("%s: no return specific to list + found" % of.path)
    return r


LIST_RESIZE = ("push", "extend", "append", "insert", "remove", "truncate", "clear", "resize",
               "drain", "retain", "pop", "swap_remove", "extend_from_slice", "split_off", "dedup")
OBJ_SHRINK = ("remove", "clear", "retain", "pop_first", "pop_last", "split_off", "append", "extend")
SHARING_OBSERVERS = ("strong_count", "weak_count", "get_mut", "try_unwrap", "into_inner", "make_mut")


def rule_R05_5(ctx):
    prog = ctx.prog
    r = RuleResult("R05.5", "a shared list never changes length in place, a "
                   "shared object never loses properties, and behaviour never "
                   "depends on how many aliases exist",
                   "growing a list in place (e.g. an `x += y` fast path) is "
                   "visible through every alias where a new container is "
                   "documented; branching on the reference count makes the "
                   "result depend on aliasing")
    n = 0
    for f in prog.hand_fns():
        if f.from_expansion:
            continue
        gf = locks.GuardFlow(f)
        for c in f.calls():
            if c.is_ptr:
                continue
            res = c.res or ""
            name = res.split("::")[-1]
            a0 = c.argtys[0] if c.argtys else ""
            if name in SHARING_OBSERVERS and ("std::sync::Arc<" in a0 or "Arc::<" in res) \
                    and "eval::value::" in (c.res_full or "") + a0 and f.module.startswith("eval"):
                r.fail("%s | observes sharing via %s" % (f.path, name),
                       "%s inspects the reference count / uniqueness of a "
                       "value cell (%s): behaviour can depend on the number "
                       "of aliases" % (f.path, res), where=c.loc)
                continue
            is_list = "std::vec::Vec<eval::value::SourcedValue" in a0 and a0.startswith("&mut")
            is_obj = "std::collections::BTreeMap<std::string::String, eval::value::SourcedValue" in a0 \
                and a0.startswith("&mut")
            if not ((is_list and name in LIST_RESIZE) or (is_obj and name in OBJ_SHRINK)):
                continue
            n += 1
            # receiver derived from a guard (a shared cell) or from a local value under construction?
            # shared iff the receiver is the deref of a MutexGuard (not a
            # local copy made from one)
            cp = f.canon_op(c.args[0])
            shared = False
            if cp and cp[0][0] == "call":
                rc = f.call_at(cp[0][1])
                if rc is not None and (rc.declared or "") in ("std::ops::DerefMut::deref_mut", "std::ops::Deref::deref") \
                        and rc.argtys and "MutexGuard" in rc.argtys[0]:
                    shared = True
            elif cp and cp[0][0] == "local" and cp[0][1] in gf.guards:
                shared = True
            r.inst("%s: %s on %s" % (f.path, name, "a shared cell" if shared else "a local value"))
            if shared:
                r.fail("%s | resizes shared container via %s" % (f.path, name),
                       "%s calls %s on the contents of a shared list/object "
                       "cell; the change is visible through every alias"
                       % (f.path, res), where=c.loc)
            else:
                r.ok()
    r.notes.append("length-changing container calls inspected: %d" % n)
    if not r.violations and not n:
        r.ok()
    return r


def run(ctx):
    return [rule_R05_1(ctx), rule_R05_2(ctx), rule_R05_3(ctx), rule_R05_4(ctx), rule_R05_5(ctx)]


META = {
    "level": "other",
    "technique": "who-may-call census over resolved callees (mutable guard "
                 "access), effect summaries, whole-crate provenance of the "
                 "Arc inside constructed container values",
    "trusted_base": ["rustc MIR", "Arc/Mutex semantics of std",
                     "derive(Clone) copies fields faithfully"],
    "assumptions": ["visibility of mutations across alias histories follows "
                    "from Arc<Mutex<_>> sharing and is not decided as such"],
    "explanation": "Decides who can mutate a container cell, that identity "
                   "is pointer identity, and that every documented builder "
                   "returns a newly allocated cell rather than an operand's.",
}
