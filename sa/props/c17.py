"""C17 — a failure is one well-formed located diagnostic (L1..L7)."""
import re

import mir
import errstate
from framework import RuleResult

ERR = "eval::error::Error"
BOX_ERR = "std::boxed::Box<eval::error::Error>"

# exception 4 (DESIGN §4 C17/L2): CastFailed wraps TryFromIntError of
# usize<->i64 conversions of lengths and of indices already checked
# non-negative; unreachable on a 64-bit target.
UNREACHABLE_LEAVES = {"CastFailed"}
# exception 5: ParseError::ExtraToken cannot be produced by an LR(1) table
# (the start production is reduced on EOF lookahead only).
DEBUG_EXCEPTIONS = {("render_parse_error", "lexer::Token")}


def ops_block_constructs(prog, f, bb):
    import ops
    return ops.block_constructs(prog, f, bb)


def _err_switches(f, min_cases=1):
    out = []
    for bb in range(len(f.blocks)):
        if f.is_cleanup(bb) or f.term(bb)["k"] != "switch":
            continue
        info = f.switch_info(bb)
        if info and info["kind"] == "discr" and info["enum"] == ERR and len(info["cases"]) >= min_cases:
            out.append((bb, info))
    return out


def renderers(prog):
    """Functions holding a big decision table over Error (>= 10 variants)
    outside derive/snafu expansions and trait impls: the renderer, or a peel
    helper it consults (`into_context_source(self) -> Result<Error, Error>`)."""
    out = []
    for f in prog.hand_fns():
        if f.from_expansion or f.impl_trait is not None or f.is_closure:
            continue
        sw = _err_switches(f, 10)
        if sw:
            out.append((f, sw[0][0], sw[0][1]))
    return out


def _boxed_source_reads(f, cp):
    """Variants V of the Error at canonical path cp whose boxed source
    `(place as V).source` is read in f."""
    reads = set()
    for bb, i, pl, rv, sp in f.assigns():
        for p in mir.rvalue_places(rv):
            projs = p[1]
            for j, pr in enumerate(projs):
                if pr != "*" and pr[0] == "d" and j + 1 < len(projs):
                    nx = projs[j + 1]
                    if nx != "*" and nx[0] == "f" and nx[2] == BOX_ERR:
                        base = (p[0], projs[:j])
                        if f.canon(base) == cp:
                            reads.add(pr[1])
    return reads


def rule_L1(ctx):
    prog = ctx.prog
    r = RuleResult("L1", "the renderer peels every wrapper variant "
                   "(reads its boxed source and recurses on it)",
                   "a wrapper that falls to the fallback arm prints its Rust "
                   "variant name in the diagnostic")
    es = ctx.memo("errstate", lambda: errstate.ErrState(prog))
    rs = renderers(prog)
    if not r.require_floor("renderer functions", len(rs), 1):
        return r
    r.require_floor("wrapper variants", len(es.wrappers), 60)
    # A renderer *group*: a function with the big table plus the functions
    # that drive it (call it and then loop or recurse) and may peel a few
    # variants themselves (`match e.into_context_source() { Ok(s) => render(s),
    # Err(e) => match e { AtLoc{..} => .., .. } }`).
    for f, sbb, info in rs:
        members = [f]
        for c in prog.callers_of(f.path):
            h = c.fn.root_fn()
            if h not in members and not h.from_expansion:
                members.append(h)
        gpaths = {m.path for m in members}
        # per member: the Error places it switches on, their flows and reads
        tables = []
        for m in members:
            for (bb_, info_) in _err_switches(m):
                cp_ = m.canon(info_["place"])
                if any(t[0] is m and t[1] == cp_ for t in tables):
                    continue
                tables.append((m, cp_, mir.VariantFlow(m, [(cp_, ERR)]), _boxed_source_reads(m, cp_)))
        self_rec = any((not c.is_ptr) and c.res == f.path for c in f.calls())
        # a driver loops over the peel helper, or calls it and recurses
        driven = False
        for c in prog.callers_of(f.path):
            h = c.fn
            if h.root_fn().path == f.path:
                continue
            if h.in_any_loop(c.bb):
                driven = True
            after = h.reach_from(c.bb)
            if any((not c2.is_ptr) and c2.res in gpaths and c2.res != f.path and c2.bb in after
                   for c2 in h.calls()):
                driven = True
        if not self_rec:
            r.inst("%s peels one layer per call; driven (looped over or followed by a recursive call) by its callers: %s"
                   % (f.path, driven))
        if len(members) > 1:
            r.inst("renderer group of %s: %s" % (f.path, sorted(gpaths)))
        for v in sorted(es.wrappers):
            peeled = recursive = False
            where_ = []
            for (m, cp_, vf_, reads_) in tables:
                if v not in reads_:
                    continue
                blocks = vf_.blocks_for((v,))
                rec_ = False
                for bb in blocks:
                    c = m.call_at(bb)
                    if c is not None and not c.is_ptr and c.res in gpaths:
                        rec_ = True
                        break
                if not rec_ and m is f and not self_rec and driven:
                    for bb in blocks:
                        bc = ops_block_constructs(prog, m, bb)
                        if ("std::result::Result", "Ok") in bc or ("std::option::Option", "Some") in bc:
                            rec_ = True
                            break
                peeled = True
                recursive = recursive or rec_
                where_.append(m.path)
            r.inst("%s: variant %s peeled=%s recurses=%s%s"
                   % (f.path, v, peeled, recursive, (" (in %s)" % ",".join(sorted(set(where_)))) if len(members) > 1 else ""))
            if peeled and recursive:
                r.ok()
            else:
                r.fail("%s | variant=%s" % (f.path, v),
                       "wrapper variant Error::%s carries a boxed source but "
                       "the renderer %s does not peel it (source read: %s, "
                       "recursive call on its path: %s); an error wrapped in "
                       "it prints as '%s: ...'" % (v, f.path, peeled,
                                                   recursive, v),
                       where=mir.span_loc(f.span))
    return r


def rule_L2(ctx):
    prog = ctx.prog
    r = RuleResult("L2", "the Display arm of every leaf variant renders a "
                   "message, not the variant's Rust identifier",
                   "snafu's default display prints the variant name; a leaf "
                   "without its own message shows an internal identifier")
    es = ctx.memo("errstate", lambda: errstate.ErrState(prog))
    f = prog.fns.get("<eval::error::Error as std::fmt::Display>::fmt")
    if f is None or not f.full:
        r.anchor_missing("<eval::error::Error as Display>::fmt")
        return r
    r.require_floor("leaf variants", len(es.leaves), 55)
    cp = None
    for bb in range(len(f.blocks)):
        if f.is_cleanup(bb) or f.term(bb)["k"] != "switch":
            continue
        info = f.switch_info(bb)
        if info and info["kind"] == "discr" and info["enum"] == ERR \
                and len(info["cases"]) >= 10:
            cp = f.canon(info["place"])
            break
    if cp is None:
        r.anchor_missing("discriminant switch in Display::fmt")
        return r
    vf = mir.VariantFlow(f, [(cp, ERR)])
    for v in sorted(es.leaves):
        texts = []
        for bb in vf.blocks_for((v,)):
            if len(vf.at(bb)) != 1:
                continue
            for s_ in f.stmts(bb):
                if s_[0] != "=":
                    continue
                for o in mir.rvalue_operands(s_[2]):
                    c = mir.op_const(o)
                    if c and ("pp" in c or isinstance(c.get("v"), str)):
                        texts.append(c.get("pp") or c.get("v"))
            c = f.call_at(bb)
            if c is not None:
                for a in c.args:
                    k = mir.op_const(a)
                    if k and ("pp" in k or isinstance(k.get("v"), str)):
                        texts.append(k.get("pp") or k.get("v"))
        shows_ident = any(v in t for t in texts)
        r.inst("leaf %s: template %s" % (v, texts[:1]))
        if not texts:
            r.unproven.append("leaf %s: no message template found" % v)
            continue
        if not shows_ident:
            r.ok()
        elif v in UNREACHABLE_LEAVES:
            r.ok()
            r.notes.append("exception 4: %s displays its identifier; "
                           "unreachable on 64-bit targets" % v)
        else:
            r.fail("variant=%s" % v,
                   "the Display arm of leaf Error::%s renders the Rust "
                   "identifier '%s' (no #[snafu(display(..))])" % (v, v),
                   where=mir.span_loc(f.span))
    return r


def top_level_eval_fns(prog):
    """Functions returning Result<_, eval Error> that are called from the
    crate root module."""
    out = set()
    for f in prog.hand_fns():
        if f.module != "":
            continue
        for c in f.calls():
            if c.is_ptr:
                continue
            g = prog.fns.get(c.res)
            if g is not None and g.full and g.module != "" and g.locals \
                    and ERR in g.locals[0]:
                out.add(g.path)
    return out


def rule_L3(ctx):
    prog = ctx.prog
    r = RuleResult("L3", "every error that can reach the top is located "
                   "(typestate Bare/Located over the call graph)",
                   "a bare leaf reaching eval_prog prints without line:col")
    es = ctx.memo("errstate", lambda: errstate.ErrState(prog))
    tops = top_level_eval_fns(prog)
    if not r.require_floor("top-level evaluator entry points", len(tops), 1):
        return r
    r.require_floor("functions with an Error-typed result", len(es.fns), 40)
    # every bare leaf creation site anywhere is an obligation
    sites = set()
    for p, s in es.R.items():
        for e in s:
            if e[0] == "B":
                sites.add((e[1], e[2]))
    reach_top = set()
    unknown = set()
    for t in tops:
        for e in es.summary(t):
            if e[0] == "B":
                reach_top.add((e[1], e[2]))
            elif e[0] == "U":
                unknown.add(e)
    for u in sorted(unknown):
        r.unproven.append("unmodelled producer %s in %s" % (u[1], u[2]))
    for (v, origin) in sorted(sites):
        f = prog.fns.get(origin)
        if f is not None and f.module.startswith("eval::error"):
            continue  # snafu-generated selector builders (unused `fail`/`build`)
        r.inst("leaf %s created in %s: %s" % (
            v, origin, "reaches top BARE" if (v, origin) in reach_top
            else "located before the top"))
        if (v, origin) not in reach_top:
            r.ok()
        elif v in UNREACHABLE_LEAVES:
            r.ok()
            r.notes.append("exception 4: %s from %s reaches the top bare "
                           "(unreachable conversion failure)" % (v, origin))
        else:
            chain = witness_chain(prog, es, v, origin, tops)
            r.fail("%s | variant=%s" % (origin, v),
                   "Error::%s is created without a location in %s and "
                   "reaches %s un-located via %s; the diagnostic would carry "
                   "no line:col" % (v, origin, sorted(tops), " <- ".join(chain)),
                   where=origin, detail={"chain": chain})
    return r


def witness_chain(prog, es, v, origin, tops):
    """Functions through which the bare element travels to a top."""
    el = ("B", v, origin)
    carriers = {p for p, s in es.R.items() if el in s}
    # BFS over callers restricted to carriers
    chain = [origin]
    seen = {origin}
    cur = origin
    for _ in range(40):
        if cur in tops:
            break
        nxt = None
        for c in prog.callers_of(cur):
            p = c.fn.path
            if p in carriers and p not in seen:
                nxt = p
                if p in tops:
                    break
        if nxt is None:
            # closures are attributed to their parent
            f = prog.fns.get(cur)
            if f is not None and f.parent and f.parent not in seen:
                nxt = f.parent
            else:
                break
        chain.append(nxt)
        seen.add(nxt)
        cur = nxt
    return chain


def rule_L4(ctx):
    prog = ctx.prog
    r = RuleResult("L4", "errors raised after a user function's body started "
                   "carry the call frame (EvalFuncCallFailed context)",
                   "an error produced outside the call-failed context loses "
                   "its stack-trace line and 'in <function>' prefix")
    sites = []
    for f in prog.hand_fns():
        for c in f.calls():
            if (c.declared or "").endswith("ResultExt::context") \
                    and len(c.argtys) > 1 \
                    and c.argtys[1].startswith("eval::error::EvalFuncCallFailed"):
                sites.append((f, c))
    if not r.require_floor("EvalFuncCallFailed context sites", len(sites), 1):
        return r
    es = ctx.memo("errstate", lambda: errstate.ErrState(prog))
    for f, c in sites:
        # the Try::branch consuming the context result and its Continue edge
        cont = None
        for d in f.calls():
            if d.declared == "std::ops::Try::branch" and d.args \
                    and mir.is_place_operand(d.args[0]) \
                    and f.canon(mir.op_place(d.args[0])) == (("call", c.bb),):
                if d.target is not None:
                    info = f.switch_info(d.target)
                    if info and info["kind"] == "discr":
                        for n, tgt in info["cases"]:
                            if n == "Continue":
                                cont = tgt
        if cont is None:
            r.unproven.append("%s: context result not consumed by `?`" % f.path)
            continue
        region = f.reach_from(cont)
        bad = []
        for bb, i, pl, kd, ops, sp in f.aggregates("std::result::Result", "Err"):
            if bb in region and ERR in (f.locals[pl[0]] if not pl[1] else ERR):
                bad.append(("Err aggregate", sp, ops))
        for d in f.calls():
            if d.bb in region and d.declared == "std::ops::FromResidual::from_residual":
                bad.append(("`?` propagation", d.span, d.args))
        r.inst("%s: %d blocks after the body evaluation, %d error exits in them"
               % (f.path, len(region), len(bad)))
        if not bad:
            r.ok()
        for what, sp, ops in bad:
            # name the leaf for the key when the operand is a leaf aggregate
            leaf = "?"
            if ops and mir.is_place_operand(ops[0]):
                cp = f.canon(mir.op_place(ops[0]))
                if cp[0][0] == "agg":
                    st = f.stmts(cp[0][1])[cp[0][2]]
                    leaf = st[2][1].get("variant", "?")
            r.fail("%s | error-exit-after-body leaf=%s" % (f.path, leaf),
                   "%s in %s is reachable after the callee body has been "
                   "evaluated but lies outside the EvalFuncCallFailed context "
                   "(%s): the failure would print without its call frame"
                   % (what, f.path, leaf), where=mir.span_loc(sp))
    return r


def _path_call_count(f, start, pred, stop_pred):
    """(min, max) number of calls satisfying pred on any path from block
    start to a terminal block; None if the region has a cycle."""
    memo = {}
    onstack = set()

    def go(bb):
        if bb in memo:
            return memo[bb]
        if bb in onstack:
            return None
        onstack.add(bb)
        if f.term(bb)["k"] == "unreachable":
            onstack.discard(bb)
            memo[bb] = "dead"
            return "dead"
        c = f.call_at(bb)
        here = 1 if (c is not None and pred(c)) else 0
        succs = f.succs(bb)
        if c is not None and stop_pred(c):
            succs = []
        if not succs:
            res = (here, here)
        else:
            lo, hi = None, None
            for s in succs:
                x = go(s)
                if x is None:
                    onstack.discard(bb)
                    return None
                if x == "dead":
                    continue
                lo = x[0] if lo is None else min(lo, x[0])
                hi = x[1] if hi is None else max(hi, x[1])
            if lo is None:
                onstack.discard(bb)
                memo[bb] = "dead"
                return "dead"
            res = (lo + here, hi + here)
        onstack.discard(bb)
        memo[bb] = res
        return res
    return go(start)


def _carried_status(prog, f, exit_call):
    """`process::exit(x.status)`: the constants stored in that field by every
    construction of the struct, split into failures built where an evaluation /
    parse error is rendered ("script") and the rest (usage errors)."""
    if not mir.is_place_operand(exit_call.args[0]):
        return None
    fld = None
    for pl in [mir.op_place(exit_call.args[0])] + [
            mir.op_place(s[2][1]) for b in f.blocks for s in b["s"]
            if s[0] == "=" and not s[1][1] and s[1][0] == mir.op_place(exit_call.args[0])[0]
            and s[2][0] == "use" and mir.is_place_operand(s[2][1])]:
        for pr in pl[1]:
            if pr != "*" and pr[0] == "f" and len(pr) > 4 and pr[4] and not pr[4].startswith("std::"):
                fld = (pr[4], pr[1], pr[3])
    if fld is None:
        return None
    adt, idx, fname = fld
    graph = prog.call_graph()
    rpaths = {g.path for g, _, _ in renderers(prog)}
    script, other = set(), set()
    n = 0
    for g in prog.hand_fns():
        for bb, i, pl, kd, aops, sp in g.aggregates(adt):
            n += 1
            v = g.const_value(mir.op_const(aops[idx])) if not mir.is_place_operand(aops[idx]) \
                else (eval(g.canon_op(aops[idx])[0][1]) if g.canon_op(aops[idx])[0][0] == "const" else None)
            reach = prog.reachable_from([g.path], graph)
            (script if reach & rpaths else other).add(v)
    if not n:
        return None
    return {"adt": adt, "field": fname, "script": script, "other": other}


def _classified_status(prog, f, exit_call):
    """`process::exit(failure.exit_code())`: the status is answered by a small
    classifier over the failure enum.  The variants that carry a crate error
    value are the script failures; the constants the classifier answers for
    them are the script-failure statuses."""
    import inline
    if not mir.is_place_operand(exit_call.args[0]):
        return None
    cp = [p for p in f.canon_op(exit_call.args[0]) if p not in ("&", "*")]
    if len(cp) != 1 or cp[0][0] != "call":
        return None
    cc = f.call_at(cp[0][1])
    g = prog.fns.get(cc.res) if cc is not None and not cc.is_ptr else None
    if g is None or not inline.is_classifier(g):
        return None
    sw = None
    for bb in range(len(g.blocks)):
        if g.term(bb)["k"] == "switch":
            info = g.switch_info(bb)
            if info and info["kind"] == "discr" and g.canon(info["place"])[0] == ("arg", 1):
                sw = info
    if sw is None:
        return None
    adt = prog.adts.get(sw["enum"])
    if not adt:
        return None

    def consts_from(tgt):
        outs, seen, st = set(), set(), [tgt]
        while st:
            x = st.pop()
            if x in seen:
                continue
            seen.add(x)
            done = False
            for s_ in g.stmts(x):
                if s_[0] == "=" and s_[1][0] == 0 and not s_[1][1]:
                    v_ = mir.const_val(s_[2][1]) if s_[2][0] == "use" and not mir.is_place_operand(s_[2][1]) else None
                    outs.add(v_)
                    done = True
            if not done:
                st.extend(g.succs(x))
        return outs
    cases = dict(sw["cases"])
    script, other = set(), set()
    for v in adt["variants"]:
        vals = consts_from(cases.get(v["name"], sw["otherwise"]))
        carries_error = any(prog.adts.get(fd["ty"]) is not None and not fd["ty"].startswith(("std::", "core::", "alloc::"))
                            for fd in v["fields"])
        (script if carries_error else other).update(vals)
    return {"adt": sw["enum"], "field": g.path.split("::")[-1] + "()", "script": script, "other": other}


def rule_L5(ctx):
    prog = ctx.prog
    r = RuleResult("L5", "failure exit: exactly one stderr write then "
                   "exit(103), no stdout; success: no stderr, no exit",
                   "any other exit shape changes status/streams of a failure")
    f = prog.fns.get("main")
    if f is None:
        r.anchor_missing("fn main")
        return r
    eff = ctx.memo("stdout_eff", lambda: prog.summarize(
        lambda g: {"stdout"} if any(
            (c.res or "").startswith("std::io::_print") for c in g.calls())
        else set()) if True else None)
    found = 0
    for bb in range(len(f.blocks)):
        if f.is_cleanup(bb) or f.term(bb)["k"] != "switch":
            continue
        info = f.switch_info(bb)
        if not info or info["kind"] != "discr":
            continue
        if not info["enum"].startswith("std::result::Result<(), "):
            continue
        cp = f.canon(info["place"])
        if cp[0][0] != "call":
            continue
        call = f.call_at(cp[0][1])
        if call is None or call.is_ptr or not call.is_local:
            continue
        found += 1
        err_t = None
        ok_t = None
        for n, tgt in info["cases"]:
            if n == "Err":
                err_t = tgt
            if n == "Ok":
                ok_t = tgt
        if err_t is None:
            err_t = info["otherwise"]
        if ok_t is None:
            ok_t = info["otherwise"]
        is_eprint = lambda c: (c.res or "") == "std::io::_eprint"
        is_exit = lambda c: (c.res or "") == "std::process::exit"
        # failure region
        cnt = _path_call_count(f, err_t, is_eprint, is_exit)
        region = f.reach_from(err_t)
        exits = [c for c in f.calls() if c.bb in region and is_exit(c)]
        returns = [b for b in region if f.term(b)["k"] == "return"]
        codes = set(mir.const_val(c.args[0]) for c in exits if c.args)
        carried = None
        if codes == {None} and len(exits) == 1:
            # the status travels in a field of the failure value (`exit(failure.status)`)
            carried = _carried_status(prog, f, exits[0]) or _classified_status(prog, f, exits[0])
            if carried is not None:
                codes = carried["script"] or {None}
                r.inst("main: exit status read from %s.%s; script failures carry %s, other failures %s"
                       % (carried["adt"], carried["field"], sorted(carried["script"]), sorted(carried["other"])))
        stdout = [c for c in f.calls() if c.bb in region and
                  ((c.res or "").startswith("std::io::_print")
                   or "stdout" in eff.get(c.res, ()))]
        r.inst("main: failure region %d blocks, stderr writes per path %s, "
               "exit codes %s, returns %d, stdout writers %d"
               % (len(region), cnt, sorted(map(str, codes)), len(returns),
                  len(stdout)))
        if cnt == (1, 1):
            r.ok()
        else:
            r.fail("main | stderr-writes-per-failure-path=%s" % (cnt,),
                   "a failing run must write exactly one diagnostic to "
                   "stderr on every path; found (min,max)=%s" % (cnt,),
                   where=mir.span_loc(f.span))
        if codes == {103} and not returns:
            r.ok()
        else:
            r.fail("main | failure-exit codes=%s returns=%d"
                   % (sorted(map(str, codes)), len(returns)),
                   "every failure path must end in process::exit(103); found "
                   "exit codes %s and %d plain returns"
                   % (sorted(map(str, codes)), len(returns)),
                   where=mir.span_loc(f.span))
        if not stdout:
            r.ok()
        else:
            r.fail("main | stdout-on-failure-path",
                   "the failure path writes to stdout (%s)" % stdout[0].res,
                   where=stdout[0].loc)
        # success region
        okr = f.reach_from(ok_t)
        bad = [c for c in f.calls() if c.bb in okr and (is_eprint(c) or is_exit(c))]
        r.inst("main: success region %d blocks, stderr/exit calls %d"
               % (len(okr), len(bad)))
        if not bad:
            r.ok()
        else:
            r.fail("main | stderr-or-exit-on-success-path",
                   "the success path reaches %s" % bad[0].res, where=bad[0].loc)
    r.require_floor("run-result switch in main", found, 1)
    return r


def rule_L6(ctx):
    prog = ctx.prog
    r = RuleResult("L6", "stdout is written only by the print builtin "
                   "(newline-terminated println!)",
                   "any other stdout writer changes 'stdout holds exactly "
                   "the output of the prints completed before the failure'")
    sites = []
    for f in prog.fns.values():
        if not f.full:
            for cj in f.j.get("calls", []):
                p = cj.get("res") or cj.get("def") or ""
                if p.startswith("std::io::_print") or "std::io::stdout" in p \
                        or "std::io::Stdout" in p:
                    sites.append((f, p, mir.span_loc(f.span)))
            continue
        for c in f.calls():
            p = c.res or ""
            if p.startswith("std::io::_print") or "std::io::stdout" in p \
                    or "std::io::Stdout" in p:
                sites.append((f, p, c.loc))
    r.require_floor("stdout write sites", len(sites), 1)
    for f, p, loc in sites:
        r.inst("%s calls %s" % (f.path, p))
        import anchors
        if p == "std::io::_print" and (anchors.is_builtin_fn(f) or f.module.startswith("builtins")):
            r.ok()
        elif f.full and any(c.loc == loc and anchors.driver_only_stdout(prog, f, c) for c in f.calls()):
            r.inst("%s: driver output on a path that runs no script" % f.path)
            r.ok()
        else:
            r.fail("%s | stdout-writer callee=%s" % (f.path, p),
                   "%s writes to stdout through %s; only the print builtin "
                   "(module builtins::fns, println!) may" % (f.path, p),
                   where=loc)
    return r


INTERNAL_TY = re.compile(r"\b(ast|eval|lexer|parser|builtins|lalrpop_util)::")


def rule_L7(ctx):
    prog = ctx.prog
    r = RuleResult("L7", "no Debug dump of an internal type in a message",
                   "a {:?} of a crate type prints Rust identifiers to the user")
    n = 0
    for f in prog.hand_fns():
        if f.from_expansion:
            continue
        for c in f.calls():
            full = c.res_full or ""
            if "fmt::rt::Argument" in full and "new_debug" in full:
                m = re.search(r"new_debug::<(.*)>$", full)
                t = m.group(1) if m else "?"
                n += 1
                macs = c.macros
                in_panic = any(m_ in ("panic", "unreachable", "assert",
                                      "assert_eq", "debug_assert", "todo",
                                      "unimplemented") for m_ in macs)
                internal = bool(INTERNAL_TY.search(t))
                r.inst("%s: {:?} of %s (panic-message=%s internal=%s)"
                       % (f.path, t, in_panic, internal))
                if not internal or in_panic:
                    r.ok()
                    continue
                short = f.path.split("::")[-1]
                if any(short == e[0] and e[1] in t for e in DEBUG_EXCEPTIONS):
                    r.ok()
                    r.notes.append("exception 5: %s formats %s with {:?} in "
                                   "the unreachable ExtraToken arm" % (f.path, t))
                    continue
                r.fail("%s | debug-of=%s" % (f.path, t.split("<")[0]),
                       "%s formats a value of internal type %s with {:?}; "
                       "the text reaches a user-visible message"
                       % (f.path, t), where=c.loc)
    r.notes.append("debug-format sites inspected: %d" % n)
    if n == 0:
        r.ok()
    return r


ERR_FMT_RE = re.compile(r"(new_display|new_debug)::<&*(std::boxed::Box<)?eval::error::Error>?>$|"
                        r"<&*(std::boxed::Box<)?eval::error::Error>? as std::string::ToString>::to_string$")


def rule_L8(ctx):
    """An evaluation error stays a structured value until the driver renders
    it: a function that itself builds `eval::error::Error` values never turns
    one into text (`e.to_string()`, `format!("{}", e)`).  Text made that way is
    the *derived* Display of whatever wrapper happens to be outermost (variant
    names), and the wrapped chain — function prefix, call frames, the located
    leaf — is gone before the renderer can peel it."""
    prog = ctx.prog
    r = RuleResult("L8", "no error is flattened to text on the way up: a "
                   "function that constructs evaluation errors never formats "
                   "one (Display/Debug/`to_string`)",
                   "a slot/argument error stored as a string inside another "
                   "error prints internal wrapper names and loses its "
                   "stack frames (`EvalCallFailed: EvalFuncCallFailed: ..`)")
    n = 0
    fam_builds = {}

    def builds_error(f):
        root = f.path.split("::{closure")[0]
        if root not in fam_builds:
            fam = [g for g in prog.hand_fns() if g.path == root or g.path.startswith(root + "::{closure")]
            fam_builds[root] = any(True for g in fam for _ in g.aggregates("eval::error::Error"))
        return fam_builds[root]
    for f in prog.hand_fns():
        if f.from_expansion or f.generated:
            continue
        for c in f.calls():
            if c.is_ptr:
                continue
            full = c.res_full or c.res or ""
            if not ERR_FMT_RE.search(full):
                continue
            n += 1
            if builds_error(f):
                r.fail("%s | evaluation error rendered to text where errors are built" % f.path.split("::{closure")[0],
                       "%s formats an `eval::error::Error` (%s) and also "
                       "constructs evaluation errors: the rendered text "
                       "replaces the structured source that the driver's "
                       "renderer peels" % (f.path, full.split("::")[-1][:40]), where=c.loc)
            else:
                r.ok()
    r.inst("hand-written formatting sites of an evaluation error: %d" % n)
    r.require_floor("formatting sites of an evaluation error (the driver's renderer)", n, 1)
    return r


def run(ctx):
    return [rule_L1(ctx), rule_L2(ctx), rule_L3(ctx), rule_L4(ctx),
            rule_L5(ctx), rule_L6(ctx), rule_L7(ctx), rule_L8(ctx)]


META = {
    "level": "proof",
    "technique": "error typestate over the resolved call graph + variant "
                 "decision tables on MIR; census of type-resolved formatting "
                 "sites of the error type (static analysis)",
    "trusted_base": ["rustc MIR construction and callee resolution (nightly "
                     "1.97)", "snafu 0.6 ResultExt::context semantics",
                     "exceptions 4 and 5 (DESIGN §4)"],
    "assumptions": [
        "CastFailed (usize<->i64 of lengths / non-negative indices) cannot "
        "occur on a 64-bit target (exception 4)",
        "LALRPOP's LR(1) tables never yield ParseError::ExtraToken "
        "(exception 5)",
        "EvalBuiltinFuncCallFailed counts as a locator because the renderer "
        "prints its call_loc (checked by L1 reads)"],
    "explanation": "Decides the structural content of C17: which Error "
                   "variants can sit where in the chain reaching main's "
                   "renderer, and the exit/stream shape of main. Message "
                   "wording is not decided.",
}
