"""C19 — runs are deterministic and printing is a canonical function of the
value (structural clauses)."""
import re

import mir
from framework import RuleResult

AMBIENT = re.compile(
    r"^(std::env::|std::fs::|std::io::stdin|std::io::Stdin|std::time::|"
    r"std::process::id|std::thread::|std::net::|std::os::|std::hash::RandomState|"
    r"std::collections::hash_map::RandomState::new|std::collections::hash_map::DefaultHasher|"
    r"rand::|getrandom::)")
# the three ambient reads of the driver (main.rs, before evaluation starts);
# each may occur once, in a crate-root function that the evaluator cannot reach
ALLOWED_AMBIENT = ("std::env::args", "std::env::current_dir", "std::fs::read_to_string")
HASH_ITER = re.compile(
    r"std::collections::(hash_map|hash_set|HashMap|HashSet)|"
    r"std::collections::hash::(map|set)::")
HASH_ITER_METHODS = ("iter", "iter_mut", "keys", "values", "values_mut", "into_iter",
                     "drain", "retain", "into_keys", "into_values", "extract_if")
ORDER_INSENSITIVE_COLLECT = ("std::collections::BTreeMap<", "std::collections::BTreeSet<",
                             "std::collections::HashMap<", "std::collections::HashSet<")
ADAPTERS = ("map", "cloned", "copied", "filter", "filter_map", "into_iter", "by_ref", "inspect")


def all_calls(prog):
    """(fn, callee path, full path, loc or None) over every body, including
    summarised generated ones."""
    for f in prog.fns.values():
        if f.full:
            for c in f.calls():
                if not c.is_ptr:
                    yield f, c.res or "", c.res_full or "", c.loc, c
        else:
            for cj in f.j.get("calls", []):
                yield f, cj.get("res") or cj.get("def") or "", cj.get("res_full") or cj.get("full") or "", None, None


def rule_R19_1(ctx):
    prog = ctx.prog
    r = RuleResult("R19.1", "ambient inputs are exactly: program arguments, "
                   "the working directory (to locate the script) and the "
                   "script file; the directory never reaches evaluation",
                   "any other ambient read (environment, clock, other files, "
                   "process id, random state) can make two runs differ")
    n = 0
    seen = set()
    graph = prog.call_graph()
    evs = [g.path for g in prog.hand_fns() if not g.is_closure and g.module != ""]
    inner = prog.reachable_from(evs, graph)     # everything the non-driver modules can reach
    per_kind = {}
    for f, res, full, loc, c in all_calls(prog):
        if not AMBIENT.match(res):
            continue
        # methods on values obtained from an allowed source are not reads
        if res.startswith(("std::env::Args", "<std::env::Args")):
            continue
        n += 1
        key = (f.path, res)
        if key in seen:
            continue
        seen.add(key)
        r.inst("%s calls %s" % (f.path, res))
        driver = f.root_fn().module == "" and f.root_fn().path not in inner
        if res in ALLOWED_AMBIENT and driver:
            per_kind[res] = per_kind.get(res, 0) + 1
            if per_kind[res] == 1:
                r.ok()
            else:
                r.fail("%s | second ambient read %s" % (f.path, res),
                       "%s is read a second time (in %s)" % (res, f.path), where=loc)
        else:
            r.fail("%s | ambient=%s" % (f.path, res),
                   "%s reads ambient state through %s; only argv, the "
                   "working directory (in run) and the script file may be read"
                   % (f.path, res), where=loc)
    r.require_floor("ambient reads found (argv, cwd, script)", n, 3)
    # the working directory carried in the evaluation context is never read
    reads = []
    for f in prog.full_fns(generated=False):
        for bb, i, pl, rv, sp in f.assigns():
            for p in mir.rvalue_places(rv):
                for pr in p[1]:
                    if pr != "*" and pr[0] == "f" and len(pr) > 4 and pr[3] == "cur_script_dir" \
                            and pr[4] == "eval::EvaluationContext":
                        reads.append((f.path, mir.span_loc(sp)))
        for c in f.calls():
            for a in c.args:
                if mir.is_place_operand(a):
                    for pr in mir.op_place(a)[1]:
                        if pr != "*" and pr[0] == "f" and len(pr) > 4 and pr[3] == "cur_script_dir":
                            reads.append((f.path, c.loc))
    r.inst("reads of EvaluationContext.cur_script_dir: %s" % reads)
    if not reads:
        r.ok()
    else:
        r.fail("%s | reads cur_script_dir" % reads[0][0],
               "the working directory stored in the evaluation context is "
               "read by %s; it can now influence evaluation" % reads[0][0],
               where=reads[0][1])
    return r


def _forward_consumers(f, call, depth=0):
    """Follow the value produced by `call` through iterator adapters to its
    final consumer calls.  Returns list of (call, kind)."""
    out = []
    if depth > 8:
        return [(call, "too-deep")]
    dst = call.dst
    if dst is None or dst[1]:
        return [(call, "unknown-dst")]
    # aliases of the result local
    aliases = {dst[0]}
    changed = True
    while changed:
        changed = False
        for bb, i, pl, rv, sp in f.assigns():
            if pl[1] or pl[0] in aliases:
                continue
            for p in mir.rvalue_places(rv):
                if p[0] in aliases:
                    aliases.add(pl[0])
                    changed = True
    users = []
    for c in f.calls():
        if c.bb == call.bb:
            continue
        for a in c.args:
            if mir.is_place_operand(a) and mir.op_place(a)[0] in aliases:
                users.append(c)
                break
    if not users:
        return [(call, "unused")]
    for u in users:
        name = (u.declared or u.res or "").split("::")[-1]
        if name in ADAPTERS and (u.declared or "").startswith(("std::iter::", "core::iter::")):
            out.extend(_forward_consumers(f, u, depth + 1))
        elif name == "collect":
            full = u.res_full or u.declared_full or ""
            m = re.search(r"collect::<(.*)>$", full)
            tgt = m.group(1) if m else (u.dstty or "")
            if tgt.startswith(ORDER_INSENSITIVE_COLLECT):
                out.append((u, "collect-unordered-or-sorted"))
            else:
                out.append((u, "collect-ordered:%s" % tgt))
        elif name in ("count", "len", "sum", "min", "max", "all", "any", "contains"):
            out.append((u, "order-insensitive"))
        elif name == "next":
            out.append((u, "iterated-in-order"))
        elif name in ("drop", "drop_in_place"):
            continue
        else:
            out.append((u, "other:%s" % (u.res or name)))
    return out


def rule_R19_2(ctx):
    prog = ctx.prog
    r = RuleResult("R19.2", "hash-ordered iteration never reaches an "
                   "order-sensitive consumer",
                   "HashMap/HashSet iteration order depends on a per-process "
                   "random seed; anything ordered by it differs between runs")
    eff_out = ctx.memo("stdout_eff2", lambda: prog.summarize(
        lambda g: {"io"} if any((c.res or "").startswith(("std::io::_print", "std::io::_eprint"))
                                for c in (g.calls() if g.full else [])) else set()))
    n = 0
    probes = 0
    for f in prog.full_fns(generated=False):
        for c in f.calls():
            if c.is_ptr:
                continue
            res = c.res or ""
            full = c.res_full or ""
            recv = c.argtys[0] if c.argtys else ""
            while recv.startswith("&"):
                recv = recv[1:].lstrip()
                if recv.startswith("mut "):
                    recv = recv[4:]
                if recv.startswith("'"):
                    recv = recv.split(" ", 1)[1] if " " in recv else recv
            is_hash = recv.startswith(("std::collections::HashMap<", "std::collections::HashSet<",
                                       "std::collections::hash_map::", "std::collections::hash_set::"))
            if not is_hash:
                continue
            name = res.split("::")[-1]
            if name in ("get", "get_mut", "insert", "remove", "contains", "contains_key", "new",
                        "len", "is_empty", "entry", "with_capacity", "clear", "from_iter", "extend"):
                probes += 1
                continue
            if name not in HASH_ITER_METHODS and "IntoIterator" not in (c.declared or ""):
                continue
            n += 1
            cons = _forward_consumers(f, c)
            kinds = sorted(set(k for _, k in cons))
            r.inst("%s: %s -> %s" % (f.path, res, kinds))
            bad = [k for k in kinds if not (k.startswith("collect-unordered") or k == "order-insensitive")]
            # projection closures must be pure with respect to output
            impure = []
            for u, k in cons:
                pass
            if not bad:
                r.ok()
            else:
                r.fail("%s | hash-iteration consumer=%s" % (f.root_fn().path, ",".join(bad)),
                       "%s iterates a hash container (%s) and the elements "
                       "reach an order-sensitive consumer (%s)" % (f.path, res, bad),
                       where=c.loc)
    r.notes.append("hash containers probed by key at %d sites; iterated at %d" % (probes, n))
    r.require_floor("hash container accesses (probes + iterations)", probes + n, 4)
    # Debug formatting of hash-containing internal types
    for f in prog.hand_fns():
        if f.from_expansion:
            continue
        for c in f.calls():
            full = c.res_full or ""
            if "new_debug" in full and "fmt::rt::Argument" in full:
                m = re.search(r"new_debug::<(.*)>$", full)
                t = m.group(1) if m else ""
                if re.search(r"HashMap|HashSet|ScopeStack|eval::value::(Func|Value|SourcedValue)\b", t):
                    r.fail("%s | debug-of-hash-container=%s" % (f.path, t.split("<")[0]),
                           "%s formats %s with {:?}; its text depends on hash "
                           "iteration order" % (f.path, t), where=c.loc)
    if not r.violations:
        r.ok()
    return r


def rule_R19_3(ctx):
    prog = ctx.prog
    r = RuleResult("R19.3", "objects are stored in an ordered map (BTreeMap), "
                   "so every traversal is in ascending key order",
                   "a hash map representation makes print/for order vary "
                   "between runs and insertion histories")
    adt = prog.adts.get("eval::value::Value")
    if not adt:
        r.anchor_missing("eval::value::Value")
        return r
    found = False
    for v in adt["variants"]:
        if v["name"] == "Object":
            found = True
            ty = v["fields"][0]["ty"] if v["fields"] else ""
            r.inst("Value::Object payload: %s" % ty)
            if re.match(r"std::sync::Arc<std::sync::Mutex<std::collections::BTreeMap<std::string::String, eval::value::SourcedValue>>>$", ty):
                r.ok()
            else:
                r.fail("eval::value::Value | Object-representation=%s" % ty.split("<")[2 if ty.count("<") > 2 else 0],
                       "objects are represented by %s, not an ordered map "
                       "keyed by String" % ty)
    if not found:
        r.anchor_missing("Value::Object")
    return r


def _forward_taint(f, seeds):
    """Locals that may hold a value derived from the seed locals (forward
    slice through assignments and call results, intra-procedural)."""
    t = set(seeds)
    changed = True
    while changed:
        changed = False
        for bb, i, pl, rv, sp in f.assigns():
            if pl[0] in t:
                continue
            if any(p[0] in t for p in mir.rvalue_places(rv)):
                t.add(pl[0])
                changed = True
        for c in f.calls():
            if c.dst is None or c.dst[0] in t:
                continue
            if any(mir.is_place_operand(a) and mir.op_place(a)[0] in t for a in c.args):
                t.add(c.dst[0])
                changed = True
    return t


def rule_R19_4(ctx):
    prog = ctx.prog
    r = RuleResult("R19.4", "no address reaches anything observable (text, "
                   "an integer value, an ordering); identity is only a boolean",
                   "printing or ordering by addresses makes output depend on "
                   "the allocator")
    n = 0
    for f in prog.full_fns(generated=False):
        if f.from_expansion:
            continue
        seeds = []
        for bb, i, pl, rv, sp in f.assigns():
            # (debug builds insert pointer->usize transmutes for alignment
            # checks; only a source-level `ptr as usize` is an observation)
            if rv[0] == "cast" and "PointerExposeProvenance" in rv[1]:
                seeds.append((pl[0], mir.span_loc(sp), "ptr as usize"))
        for c in f.calls():
            res = c.res or ""
            full = c.res_full or ""
            if "fmt::rt::Argument" in full and "new_pointer" in full:
                n += 1
                r.fail("%s | formats an address ({:p})" % f.path,
                       "%s prints a pointer" % f.path, where=c.loc)
            observes = (
                (res.endswith("::as_ptr") and "Arc" in res)
                or res.endswith("Arc::<T>::into_raw")
                or res.startswith("std::ptr::addr")
                or (res.endswith("::addr") and "ptr::" in res)
                or res.endswith("::expose_provenance"))
            if observes and c.dst is not None:
                seeds.append((c.dst[0], c.loc, res.split("::")[-1]))
        if not seeds:
            continue
        n += len(seeds)
        t = _forward_taint(f, [s_[0] for s_ in seeds])
        sinks = []
        for c in f.calls():
            full = c.res_full or ""
            res = c.res or ""
            tainted_arg = any(mir.is_place_operand(a) and mir.op_place(a)[0] in t for a in c.args)
            if not tainted_arg:
                continue
            if "fmt::rt::Argument" in full:
                sinks.append(("formatted", c.loc))
            elif __import__("anchors").ctor_variants(prog, res) == {"Int"} or "PartialOrd" in (c.declared or "") or "::Ord::" in (c.declared or ""):
                sinks.append(("ordered/integer use via %s" % res.split("::")[-1], c.loc))
            elif "BTreeMap" in full or "BTreeSet" in full:
                sinks.append(("ordered container key", c.loc))
        for bb, i, pl, kd, aops, sp in f.aggregates("eval::value::Value", "Int"):
            if any(mir.is_place_operand(o) and mir.op_place(o)[0] in t for o in aops):
                sinks.append(("Seed integer", mir.span_loc(sp)))
        r.inst("%s: %d address observation(s) (%s), observable sinks: %s"
               % (f.path, len(seeds), sorted(set(s_[2] for s_ in seeds)), [k for k, _ in sinks]))
        if sinks:
            r.fail("%s | address reaches %s" % (f.path, sinks[0][0]),
                   "%s derives a value from a container's address and it "
                   "reaches %s" % (f.path, sinks[0][0]), where=sinks[0][1])
        else:
            r.ok()
    r.inst("address observation sites: %d" % n)
    if n == 0:
        r.ok()
    return r


def rule_R19_5(ctx):
    prog = ctx.prog
    r = RuleResult("R19.5", "print writes one rendered line and returns "
                   "null; the renderer reads only its argument",
                   "a renderer that consults anything else is not a function "
                   "of the value")
    import anchors as _an
    printers = [f for f in prog.hand_fns() if not f.is_closure
                and any((c.res or "").startswith(("std::io::_print", "std::io::stdout"))
                        and not _an.driver_only_stdout(prog, f, c) for c in f.calls())]
    if not r.require_floor("print builtin", len(printers), 1):
        return r
    graph = prog.call_graph()
    for f in printers:
        prints = [c for c in f.calls() if (c.res or "").startswith("std::io::_print")]
        r.inst("%s: %d stdout write(s)" % (f.path, len(prints)))
        if len(prints) == 1 and not f.in_any_loop(prints[0].bb):
            r.ok()
        elif not prints:
            r.unproven.append("%s writes to stdout through a handle; the number of writes is not decided here (C17/L6 covers who may write)" % f.path)
        else:
            r.fail("%s | stdout-writes=%d" % (f.path, len(prints)),
                   "the print builtin must write exactly one line per call")
        macs = prints[0].macros if prints else []
        if "println" in macs or any("println" in m for m in macs):
            r.ok()
        else:
            r.unproven.append("%s: stdout write is not a println!" % f.path)
        reach = prog.reachable_from([f.path], graph)
        ident = sorted(p for p in reach if "::ptr_eq" in p or (p.endswith("::as_ptr") and "Arc" in p)
                       or p.startswith("std::ptr::addr") or p.endswith("Arc::<T>::into_raw"))
        r.inst("%s reaches identity/address observers: %s" % (f.path, ident))
        if not ident:
            r.ok()
        else:
            r.fail("%s | rendering observes identity via %s" % (f.path, ident[0].split("::")[-1]),
                   "printing can reach %s: the rendering of a value can then "
                   "depend on aliasing, not only on its structure" % ident[0])
        amb = [p for p in reach if AMBIENT.match(p)]
        scope = [p for p in reach if "ScopeStack" in p]
        r.inst("%s reaches ambient: %s, scope access: %s" % (f.path, amb, scope))
        if not amb and not scope:
            r.ok()
        else:
            r.fail("%s | renderer reads %s" % (f.path, ",".join(amb + scope)[:80]),
                   "printing can reach %s" % (amb + scope))
    return r


def run(ctx):
    return [rule_R19_1(ctx), rule_R19_2(ctx), rule_R19_3(ctx), rule_R19_4(ctx),
            rule_R19_5(ctx)]


META = {
    "level": "other",
    "technique": "who-may-call census over resolved callees of the whole "
                 "crate (ambient inputs, stdout), forward slicing of hash "
                 "iterations to their consumers, type facts",
    "trusted_base": ["rustc MIR and callee resolution", "BTreeMap iterates "
                     "in ascending key order (std)"],
    "assumptions": ["the renderer's indentation text as a function of the "
                    "value is not decided"],
    "explanation": "Decides the structural sources of nondeterminism: which "
                   "ambient inputs the program can read, whether hash "
                   "iteration order can reach anything ordered, the object "
                   "map representation, pointer observation, and the shape "
                   "of the print effect.",
}
