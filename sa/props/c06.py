"""C06 — integer arithmetic is exact over 64 bits or an error."""
import re

import guards
import mir
import ops
from ops import BINOP, VALUE, ERR
from framework import RuleResult

EXPECTED_PRIM = {
    "Sum": ("checked_add",), "Sub": ("checked_sub",), "Mul": ("checked_mul",),
    "Div": ("checked_div",), "Mod": ("wrapping_rem",),   # (checked_rem also answers None for MIN % -1, whose exact result 0 fits)
}
I64_METHOD = re.compile(r"core::num::<impl i64>::(\w+)$")
INEXACT = re.compile(r"core::num::<impl i64>::(wrapping|saturating|overflowing|unchecked)_\w+$")
CMP = {"Gt": ("gt", "Gt"), "Gte": ("ge", "Ge"), "Lt": ("lt", "Lt"), "Lte": ("le", "Le")}


def optable(ctx):
    def mk():
        cands = ops.find_operator_fn(ctx.prog)
        if len(cands) != 1:
            return None
        f, op_p, lhs_p, rhs_p = cands[0]
        pt = ops.PairTable(ctx.prog, f, [(op_p, BINOP), (lhs_p, VALUE), (rhs_p, VALUE)])
        return (f, op_p, lhs_p, rhs_p, pt)
    return ctx.memo("optable", mk)


def _constructs_overflow(prog, f, bb):
    if (ERR, "IntOverflow") in ops.block_constructs(prog, f, bb):
        return True
    # a constructor helper (`Error::int_overflow(op, a, b)`) called here
    c = f.call_at(bb)
    if c is not None and not c.is_ptr:
        g = prog.fns.get(c.res)
        if g is not None and g.full and not g.is_closure and not g.generated and not g.from_expansion \
                and g.impl_trait is None and g.path != f.path:
            return (ERR, "IntOverflow") in ops.constructs_deep(prog, g)
    return False


def _has_int_value(f, bb):
    for s in f.stmts(bb):
        if s[0] == "=" and s[2][0] == "agg" and s[2][1].get("k") == "adt" \
                and s[2][1]["adt"] == VALUE and s[2][1]["variant"] == "Int":
            return True
    return False


def _exact_rem_ok(g):
    """g(a, b) -> Option<i64>: None iff b == 0, else Some(a.wrapping_rem(b))."""
    if g is None or not g.full or g.arg_count != 2:
        return False
    rem = [c for c in g.calls() if (c.res or "").endswith("wrapping_rem")]
    if len(rem) != 1:
        return False
    c = rem[0]
    if g.canon_op(c.args[0])[0] != ("arg", 1) or g.canon_op(c.args[1])[0] != ("arg", 2):
        return False
    gd = guards.guard_of(g, c.bb)
    if gd is None:
        return False
    _, rel, a, b, other = gd
    if not ((rel == "Ne" and {repr(a), repr(b)} == {repr(("var", 2)), repr(("const", 0))})):
        return False
    # the zero edge answers None, the other edge Some(result of wrapping_rem)
    nones = [bb for bb, i, pl, kd, ao, sp in g.aggregates("std::option::Option", "None")
             if bb in g.reach_from(other) and not g.dominates(c.bb, bb)]
    somes = [ao for bb, i, pl, kd, ao, sp in g.aggregates("std::option::Option", "Some")
             if g.dominates(c.bb, bb)]
    return bool(nones) and len(somes) == 1 and g.canon_op(somes[0][0])[0] == ("call", c.bb)


def _table_driven(prog, f, ex, op, prims, lhs_pay, rhs_pay):
    """(ok, message, where) for an operator whose primitive is chosen as a
    function value in its own arm and applied through a function pointer."""
    picks = []
    for bb in sorted(ex):
        for s in f.stmts(bb):
            if s[0] != "=":
                continue
            for o in mir.rvalue_operands(s[2]):
                k = mir.op_const(o)
                if k and "fn" in k:
                    picks.append((bb, s, k["fn"]))
    if not picks:
        return None
    if len(set(p[2] for p in picks)) != 1:
        return (False, "primitive: several function values %s" % sorted(set(p[2] for p in picks)), None)
    bb0, st, fnpath = picks[0]
    m = I64_METHOD.match(fnpath)
    name = m.group(1) if m else fnpath.split("::")[-1]
    if m:
        if name not in prims:
            return (False, "primitive=%s: not one of %s" % (name, prims), mir.span_loc(st[3]))
        if name == "wrapping_rem":
            return (False, "primitive=wrapping_rem: used without a zero-divisor guard", mir.span_loc(st[3]))
    else:
        if op != "Mod" or not _exact_rem_ok(prog.fns.get(fnpath)):
            return (False, "primitive=%s: not a checked i64 primitive" % name, mir.span_loc(st[3]))
    # the pointer call that applies it
    tl = ops.forward_taint(f, seeds={st[1][0]})
    pcs = [c for c in f.calls() if c.is_ptr and mir.is_place_operand(c.callee["ptr"])
           and mir.op_place(c.callee["ptr"])[0] in tl and len(c.args) == 2]
    if len(pcs) != 1:
        return (False, "application: %d call(s) through the selected function value" % len(pcs), mir.span_loc(st[3]))
    pc = pcs[0]
    a0, a1 = f.canon_op(pc.args[0]), f.canon_op(pc.args[1])
    if not (ops.same_value(a0, lhs_pay) and ops.same_value(a1, rhs_pay)):
        return (False, "operand-order: the function value is not applied to (lhs, rhs)", pc.loc)
    # result: Some -> Value::Int, None -> IntOverflow
    u1 = [u for u in ops.forward_users(f, pc)
          if (u.res or "").endswith("Option::<T>::map") and len(u.args) > 1
          and (mir.op_const(u.args[1]) or {}).get("fn") == VALUE + "::Int"]
    if len(u1) == 1:
        u2 = [u for u in ops.forward_users(f, u1[0]) if (u.res or "").split("::")[-1] in ("ok_or_else", "ok_or")]
        if len(u2) == 1 and (ERR, "IntOverflow") in ops.block_constructs(prog, f, u2[0].bb):
            return (True, "%s applied to (lhs, rhs); Some -> Value::Int, None -> IntOverflow" % name, pc.loc)
        # or matched after the join
        tl2 = ops.forward_taint(f, u1[0])
        for b2 in f.reach_from(u1[0].bb):
            if f.term(b2)["k"] != "switch":
                continue
            i2 = f.switch_info(b2)
            if i2 and i2["kind"] == "discr" and i2["enum"].startswith("std::option::Option<") and i2["place"][0] in tl2:
                nt = dict(i2["cases"]).get("None", i2["otherwise"])
                st_ = dict(i2["cases"]).get("Some", i2["otherwise"])
                if nt != st_ and any(_constructs_overflow(prog, f, x) for x in f.reach_from(nt, avoid=[st_])):
                    return (True, "%s applied to (lhs, rhs); Some -> Value::Int, None -> IntOverflow (matched after the join)" % name, pc.loc)
    return (False, "result: the overflow (None) answer of %s does not lead to IntOverflow" % name, pc.loc)


def closure_optable(ctx):
    """The operator table over a deeper view of the operator function: its
    private helpers *and its own closures* inlined at their call sites
    (`checked_int(a.checked_add(*b), a, b)` becomes the match it abbreviates)."""
    def mk():
        import inline
        ot = optable(ctx)
        if ot is None:
            return None
        f, op_p, lhs_p, rhs_p, _ = ot
        base = getattr(f, "base", f)
        v = inline.view(ctx.prog, base, closures=True)
        if v is base or v is f:
            return None
        pt = ops.PairTable(ctx.prog, v, [(op_p, BINOP), (lhs_p, VALUE), (rhs_p, VALUE)])
        return (v, op_p, lhs_p, rhs_p, pt)
    return ctx.memo("closure_optable", mk)


R06_1_USED = [None]


def rule_R06_1(ctx):
    ot = optable(ctx)
    r = _rule_R06_1_on(ctx, ot)
    R06_1_USED[0] = ot
    if r.violations and ot is not None:
        ot2 = closure_optable(ctx)
        if ot2 is not None:
            r2 = _rule_R06_1_on(ctx, ot2)
            if not r2.violations:
                r2.notes.append("decided on the view of %s with its closures and private helpers inlined (%s)"
                                % (ot2[0].path, sorted(getattr(ot2[0], "members", []))))
                R06_1_USED[0] = ot2
                return r2
    return r


def _rule_R06_1_on(ctx, ot):
    prog = ctx.prog
    r = RuleResult("R06.1", "operator<->checked primitive table with "
                   "overflow-to-error for Int x Int",
                   "a different primitive, swapped operands, or a default on "
                   "overflow gives a wrong or silently wrapped result")
    if ot is None:
        r.anchor_missing("operator function (one BinaryOp and two Value "
                         "parameters switched on)")
        return r
    f, op_p, lhs_p, rhs_p, pt = ot
    members = getattr(f, "members", {f.path})
    lhs_pay = ops.payload_path(lhs_p, "Int")
    rhs_pay = ops.payload_path(rhs_p, "Int")
    for op, prims in EXPECTED_PRIM.items():
        tup = (op, "Int", "Int")
        ex = pt.exclusive_blocks(tup)
        key = "%s | op=%s" % (f.path, op)
        if not ex:
            r.fail(key + " no-arm", "no code is specific to %s on two ints" % op)
            continue
        calls = []
        for bb in sorted(ex):
            c = f.call_at(bb)
            if c is not None and not c.is_ptr and I64_METHOD.match(c.res or ""):
                calls.append(c)
        names = [I64_METHOD.match(c.res).group(1) for c in calls]
        if not calls:
            # table-driven form: the arm selects a primitive as a function
            # value (`Sub => Some(i64::checked_sub)`) that is called later
            td = _table_driven(prog, f, ex, op, prims, lhs_pay, rhs_pay)
            if td is not None:
                okk, msg, where_ = td
                r.inst("%s: %s on (Int,Int) is table-driven: %s" % (f.path, op, msg))
                if okk:
                    r.ok(2)
                else:
                    r.fail(key + " table-driven " + msg.split(":")[0],
                           "operator %s on two ints (table-driven): %s" % (op, msg), where=where_)
                continue
        r.inst("%s: %s on (Int,Int) uses %s" % (f.path, op, names))
        if len(calls) != 1 or names[0] not in prims:
            r.fail(key + " primitive=%s" % ",".join(names),
                   "operator %s on two ints must be computed by exactly one "
                   "of %s; found %s" % (op, prims, names),
                   where=calls[0].loc if calls else mir.span_loc(f.span))
            continue
        c = calls[0]
        a0 = f.canon_op(c.args[0])
        a1 = f.canon_op(c.args[1])
        if not (ops.same_value(a0, lhs_pay) and ops.same_value(a1, rhs_pay)):
            r.fail(key + " operand-order",
                   "%s(%s) is not applied to (lhs, rhs) in that order"
                   % (names[0], op), where=c.loc)
            continue
        r.ok()
        if names[0].startswith("checked_"):
            # Some edge builds Value::Int(payload); None edge -> IntOverflow
            info = f.switch_info(c.target) if c.target is not None else None
            some_t = none_t = None
            if info and info["kind"] == "discr":
                for n, tgt in info["cases"]:
                    if n == "Some":
                        some_t = tgt
                    if n == "None":
                        none_t = tgt
                if none_t is None:
                    none_t = info["otherwise"]
                if some_t is None:
                    some_t = info["otherwise"]
            merged = False
            if some_t is None:
                # the Option may be stored in a local that several arms assign
                # and matched once, after the arms join
                tl = ops.forward_taint(f, c)
                sws = []
                for b2 in f.reachable():
                    if f.is_cleanup(b2) or f.term(b2)["k"] != "switch":
                        continue
                    i2 = f.switch_info(b2)
                    if i2 and i2["kind"] == "discr" and i2["enum"].startswith("std::option::Option<") \
                            and i2["place"][0] in tl and b2 in f.reach_from(c.bb):
                        sws.append(i2)
                if len(sws) == 1:
                    info = sws[0]
                    merged = True
                    for n, tgt in info["cases"]:
                        if n == "Some":
                            some_t = tgt
                        if n == "None":
                            none_t = tgt
                    if none_t is None:
                        none_t = info["otherwise"]
                    if some_t is None:
                        some_t = info["otherwise"]
            if some_t is None:
                # combinator form: `a.checked_add(b).map(Value::Int)
                # .ok_or_else(|| overflow_error(a, b))`
                u1 = [u for u in ops.forward_users(f, c)
                      if (u.res or "").endswith("Option::<T>::map") and len(u.args) > 1
                      and (mir.op_const(u.args[1]) or {}).get("fn") == VALUE + "::Int"]
                u2 = []
                if len(u1) == 1:
                    u2 = [u for u in ops.forward_users(f, u1[0])
                          if (u.res or "").split("::")[-1] in ("ok_or_else", "ok_or")]
                if len(u1) == 1 and len(u2) == 1 \
                        and (ERR, "IntOverflow") in ops.block_constructs(prog, f, u2[0].bb) \
                        and not [u for u in ops.forward_users(f, c) if u is not u1[0] and u.bb != u1[0].bb]:
                    r.inst("%s: %s result wrapped by map(Value::Int), None -> IntOverflow via %s"
                           % (f.path, names[0], u2[0].res.split("::")[-1]))
                    r.ok(2)
                    continue
                r.fail(key + " result-not-matched",
                       "the Option returned by %s is not matched on" % names[0],
                       where=c.loc)
                continue
            if merged:
                some_r = f.reach_from(some_t, avoid=[none_t])
                none_r = f.reach_from(none_t, avoid=[some_t])
            else:
                some_r = f.reach_from(some_t) & ex
                none_r = f.reach_from(none_t) & ex
            ok_val = False
            for bb in some_r:
                for s in f.stmts(bb):
                    if s[0] == "=" and s[2][0] == "agg" and s[2][1].get("k") == "adt" \
                            and s[2][1]["adt"] == VALUE and s[2][1]["variant"] == "Int":
                        src = f.canon_op(s[2][2][0])
                        if src == (("call", c.bb), ("d", "Some"), ("f", 0)):
                            ok_val = True
                        if merged and src[0] == ("local", info["place"][0]) \
                                and tuple(src[1:]) == (("d", "Some"), ("f", 0)):
                            ok_val = True
            if ok_val:
                r.ok()
            else:
                r.fail(key + " result-not-payload",
                       "the Value::Int built for %s is not the Some payload "
                       "of %s" % (op, names[0]), where=c.loc)
            over = any(_constructs_overflow(prog, f, bb) for bb in none_r)
            leaks = any(_has_int_value(f, bb) for bb in none_r)
            if over and not leaks:
                r.ok()
            else:
                r.fail(key + " overflow-edge",
                       "the None (overflow) edge of %s must produce "
                       "Error::IntOverflow and no integer value (overflow "
                       "error: %s, value built: %s)" % (names[0], over, leaks),
                       where=c.loc)
        else:
            # wrapping_rem: must be guarded by rhs != 0
            guard = None
            for bb in sorted(ex):
                if f.term(bb)["k"] != "switch":
                    continue
                info = f.switch_info(bb)
                if not info or info["kind"] != "bool":
                    continue
                rv = f.bool_def(info["on"])
                if not rv or rv[0] != "bin" or rv[1] not in ("Eq", "Ne"):
                    continue
                x, y = rv[2], rv[3]
                zero = None
                other = None
                if mir.const_val(y) == 0:
                    zero, other = y, x
                elif mir.const_val(x) == 0:
                    zero, other = x, y
                if zero is None or not ops.same_value(f.canon_op(other), rhs_pay):
                    continue
                t_true = info["otherwise"]
                t_false = None
                for v, tgt in info["cases"]:
                    if v is False:
                        t_false = tgt
                    if v is True:
                        t_true = tgt
                if t_false is None:
                    t_false = info["otherwise"]
                zero_t, nz_t = (t_true, t_false) if rv[1] == "Eq" else (t_false, t_true)
                guard = (bb, zero_t, nz_t)
            if guard is None:
                r.fail(key + " unguarded-wrapping_rem",
                       "wrapping_rem is exact only for a non-zero divisor; no "
                       "`rhs == 0` test guards it", where=c.loc)
                continue
            _, zero_t, nz_t = guard
            zr = mir.flag_reach(f, zero_t, avoid=[nz_t]) & ex
            nr = mir.flag_reach(f, nz_t, avoid=[zero_t]) & ex
            direct = any(_constructs_overflow(prog, f, bb) for bb in zr)
            via_none = False
            if not direct:
                # the zero edge may answer `None` into an Option that is
                # matched after the arms join, its None edge raising the error
                nones, somes = set(), set()
                for bb in zr:
                    for s in f.stmts(bb):
                        if s[0] == "=" and s[2][0] == "agg" and s[2][1].get("k") == "adt" \
                                and s[2][1]["adt"] == "std::option::Option":
                            (nones if s[2][1]["variant"] == "None" else somes).add(s[1][0])
                tl = ops.forward_taint(f, seeds=nones) if nones and not somes else set()
                # ... or is consumed after the join by `.map(Value::Int)
                # .ok_or_else(|| overflow(a, b))`
                for u1 in f.calls():
                    if (u1.res or "").endswith("Option::<T>::map") and len(u1.args) > 1 \
                            and mir.is_place_operand(u1.args[0]) and mir.op_place(u1.args[0])[0] in tl \
                            and (mir.op_const(u1.args[1]) or {}).get("fn") == VALUE + "::Int" \
                            and u1.bb in f.reach_from(zero_t, avoid=[nz_t]):
                        u2 = [u for u in ops.forward_users(f, u1)
                              if (u.res or "").split("::")[-1] in ("ok_or_else", "ok_or")]
                        if len(u2) == 1 and (ERR, "IntOverflow") in ops.block_constructs(prog, f, u2[0].bb):
                            via_none = True
                for b2 in f.reach_from(zero_t, avoid=[nz_t]):
                    if f.term(b2)["k"] != "switch":
                        continue
                    i2 = f.switch_info(b2)
                    if i2 and i2["kind"] == "discr" and i2["enum"].startswith("std::option::Option<") \
                            and i2["place"][0] in tl:
                        nt = dict(i2["cases"]).get("None", i2["otherwise"])
                        st = dict(i2["cases"]).get("Some", i2["otherwise"])
                        if nt != st and any(_constructs_overflow(prog, f, bb)
                                            for bb in f.reach_from(nt, avoid=[st])):
                            via_none = True
            if c.bb in nr and c.bb not in zr \
                    and (direct or via_none) \
                    and not any(_has_int_value(f, bb) for bb in zr):
                r.ok()
            else:
                r.fail(key + " zero-divisor-edge",
                       "the zero-divisor edge must produce Error::IntOverflow "
                       "and wrapping_rem must run only on the non-zero edge",
                       where=c.loc)
    # the overflow error constructor keeps (lhs, rhs) order
    n_sites = 0
    for g in [g for g in prog.closures_of(f.path) if g.path not in members] + [f]:
        for bb, i, pl, kd, aops, sp in g.aggregates(ERR, "IntOverflow"):
            n_sites += 1
            fields = kd["fields"]
            li, ri = fields.index("lhs"), fields.index("rhs")
            lcp = [p for p in g.canon_op(aops[li]) if p not in ("&", "*")]
            rcp = [p for p in g.canon_op(aops[ri]) if p not in ("&", "*")]
            if g.is_closure:
                good = lcp == [("arg", 2)] and rcp == [("arg", 3)]
            else:
                good = ops.same_value(tuple(lcp), lhs_pay) and ops.same_value(tuple(rcp), rhs_pay)
            r.inst("%s: IntOverflow{lhs,rhs} from %s,%s" % (g.path, lcp, rcp))
            if good:
                r.ok()
            else:
                r.fail("%s | IntOverflow operand order" % g.path,
                       "Error::IntOverflow.lhs/.rhs are not filled from the "
                       "(lhs, rhs) operands in order", where=mir.span_loc(sp))
    # call sites of the overflow closure pass (lhs, rhs)
    for c in f.calls():
        g = prog.fns.get(c.res) if not c.is_ptr else None
        if g is not None and g.is_closure and (ERR, "IntOverflow") in ops.constructs(prog, g):
            a = ops.closure_arg_operands(f, c)
            if len(a) == 2 and ops.same_value(f.canon_op(a[0]), lhs_pay) \
                    and ops.same_value(f.canon_op(a[1]), rhs_pay):
                r.ok()
            else:
                r.fail("%s | overflow error call operand order" % f.path,
                       "the overflow error is not built from (lhs, rhs) in "
                       "order", where=c.loc)
    r.require_floor("IntOverflow construction sites", n_sites, 1)
    return r


def rule_R06_2(ctx):
    prog = ctx.prog
    r = RuleResult("R06.2", "no inexact i64 primitive (wrapping/saturating/"
                   "overflowing/unchecked, raw operators) in hand-written code",
                   "such a primitive yields a wrapped or saturated result "
                   "instead of an error")
    ot = R06_1_USED[0] or optable(ctx)
    allowed_fn = ot[0].path if ot else None
    allowed_members = getattr(ot[0], "members", {allowed_fn}) if ot else set()
    n = 0
    for f in prog.hand_fns():
        for c in f.calls():
            if c.is_ptr:
                continue
            m = I64_METHOD.match(c.res or "")
            if m:
                n += 1
            if INEXACT.match(c.res or ""):
                name = m.group(1)
                if name == "wrapping_rem" and _exact_rem_ok(f):
                    r.inst("%s: wrapping_rem inside a verified exact-remainder function (None iff divisor 0)" % f.path)
                    r.ok()
                    continue
                if name == "wrapping_rem" and f.path in allowed_members:
                    r.inst("%s: wrapping_rem (guard checked by R06.1)" % f.path)
                    r.ok()
                    continue
                r.inst("%s: %s" % (f.path, name))
                r.fail("%s | primitive=%s" % (f.path, name),
                       "%s uses the inexact i64 primitive %s: the result can "
                       "silently differ from the mathematical one"
                       % (f.path, name), where=c.loc)
        for bb, i, pl, rv, sp in f.assigns():
            if rv[0] == "bin" and rv[4] in ("i64", "&i64") and rv[1] in (
                    "Add", "Sub", "Mul", "Div", "Rem", "Shl", "Shr",
                    "AddWithOverflow", "SubWithOverflow", "MulWithOverflow",
                    "AddUnchecked", "SubUnchecked", "MulUnchecked"):
                r.fail("%s | raw i64 %s" % (f.path, rv[1].replace("WithOverflow", "")),
                       "%s computes on i64 with the raw operator %s (wraps in "
                       "release builds, panics in debug builds)" % (f.path, rv[1]),
                       where=mir.span_loc(sp))
        for c in f.calls():
            if (c.declared or "").startswith("std::ops::") and \
                    (c.declared or "").split("::")[2] in (
                        "Add", "Sub", "Mul", "Div", "Rem", "Neg", "Shl", "Shr",
                        "AddAssign", "SubAssign", "MulAssign", "DivAssign", "RemAssign") \
                    and any(a in ("i64", "&i64", "&mut i64") for a in c.argtys):
                r.fail("%s | i64 operator impl %s" % (f.path, c.declared.split("::")[2]),
                       "%s applies the %s operator to i64 operands"
                       % (f.path, c.declared), where=c.loc)
    # (primitives referenced as function values count too: table-driven code)
    for f in prog.hand_fns():
        for bb, i, pl, rv, sp in f.assigns():
            for o in mir.rvalue_operands(rv):
                k = mir.op_const(o)
                if k and "fn" in k and I64_METHOD.match(k["fn"]):
                    n += 1
                    if INEXACT.match(k["fn"]):
                        r.fail("%s | primitive=%s (as a function value)" % (f.path, k["fn"].split("::")[-1]),
                               "%s selects the inexact i64 primitive %s as a function value" % (f.path, k["fn"]),
                               where=mir.span_loc(sp))
    r.require_floor("i64 method calls seen", n, 4)
    if not r.violations:
        r.ok()
    return r


def rule_R06_3(ctx):
    prog = ctx.prog
    r = RuleResult("R06.3", "one operator implementation: `x op= y` stores "
                   "the unmodified result of the operator function",
                   "a second, inline implementation of an operator could "
                   "disagree with the expression form")
    ot = optable(ctx)
    if ot is None:
        r.anchor_missing("operator function")
        return r
    f = ot[0]
    # Value::Int is built only by the value module and the operator function
    for g in prog.hand_fns():
        if g.from_expansion:
            continue
        for bb, i, pl, kd, aops, sp in g.aggregates(VALUE, "Int"):
            import anchors
            okp = g.module.startswith(anchors.value_module(prog)) \
                or g.root_fn().path in getattr(f, "members", {f.path})
            r.inst("%s builds Value::Int" % g.path)
            if okp:
                r.ok()
            else:
                r.fail("%s | builds Value::Int" % g.path,
                       "%s constructs an integer value outside the value "
                       "module and the operator function %s: arithmetic "
                       "implemented twice" % (g.path, f.path), where=mir.span_loc(sp))
    sites = prog.callers_of(f.path)
    by_mod = {}
    for c in sites:
        by_mod.setdefault(c.fn.module, []).append(c)
    import anchors as _an
    bm = _an.binder_module(prog)
    n_bind = sum(len(v) for k, v in by_mod.items() if k.startswith(bm))
    r.require_floor("operator-function call sites in the binder module", n_bind, 1)
    r.require_floor("operator-function call sites outside the binder module (expression evaluation)",
                    sum(len(v) for k, v in by_mod.items() if not k.startswith(bm)), 1)
    for c in sites:
        g = c.fn
        # find every use of the Continue payload of this call's `?` chain
        users = []
        for d in g.calls():
            for a in d.args:
                src = ops.try_chain_source(g, a)
                if src is not None and src.bb == c.bb and d.bb != c.bb \
                        and not (d.declared or "").endswith("ResultExt::context") \
                        and d.declared not in ("std::ops::Try::branch",
                                               "std::ops::FromResidual::from_residual"):
                    users.append(d)
        if not users:
            users = ops.forward_users(g, c)
        names = sorted(set(u.res for u in users))
        r.inst("%s: operator result consumed by %s" % (g.path, names))
        import anchors
        vm = anchors.value_module(prog) + "::"
        if users and all((u.res or "").startswith(vm) for u in users):
            r.ok()
        else:
            r.fail("%s | operator result consumers=%s" % (g.path, ",".join(names)),
                   "the value returned by the operator function must be "
                   "wrapped by a value-module constructor and stored as is; "
                   "in %s it is consumed by %s" % (g.path, names), where=c.loc)
    return r


def rule_R06_4(ctx):
    prog = ctx.prog
    r = RuleResult("R06.4", "comparison table: > >= < <= on (lhs, rhs) in order",
                   "a swapped operand or wrong comparison inverts an order test")
    ot = optable(ctx)
    if ot is None:
        r.anchor_missing("operator function")
        return r
    f, op_p, lhs_p, rhs_p, pt = ot
    lhs_pay = ops.payload_path(lhs_p, "Int")
    rhs_pay = ops.payload_path(rhs_p, "Int")
    for op, (meth, binop) in CMP.items():
        ex = pt.exclusive_blocks((op, "Int", "Int"))
        found = []
        for bb in sorted(ex):
            c = f.call_at(bb)
            if c is not None and (c.declared or "").startswith("std::cmp::PartialOrd::"):
                found.append((c.declared.split("::")[-1], c.args[0], c.args[1], c.loc))
            for s in f.stmts(bb):
                if s[0] == "=" and s[2][0] == "bin" and s[2][1] in ("Gt", "Ge", "Lt", "Le") \
                        and s[2][4] in ("i64", "&i64"):
                    found.append((s[2][1], s[2][2], s[2][3], mir.span_loc(s[3])))
        if not found:
            # table-driven: the arm selects `i64::gt`/... as a function value
            # that is applied through a pointer later
            picks = []
            for bb in sorted(ex):
                for s in f.stmts(bb):
                    if s[0] != "=":
                        continue
                    for o in mir.rvalue_operands(s[2]):
                        k = mir.op_const(o)
                        if k and "fn" in k and k["fn"].split("::")[-1] in ("gt", "ge", "lt", "le") \
                                and "i64" in (k.get("fn_full") or k.get("ty") or ""):
                            picks.append((s, k["fn"].split("::")[-1]))
            if len(picks) == 1:
                st_, nm_ = picks[0]
                tl = ops.forward_taint(f, seeds={st_[1][0]})
                pcs = [c for c in f.calls() if c.is_ptr and mir.is_place_operand(c.callee["ptr"])
                       and mir.op_place(c.callee["ptr"])[0] in tl and len(c.args) == 2]
                if len(pcs) == 1:
                    found.append((nm_, pcs[0].args[0], pcs[0].args[1], pcs[0].loc))
        r.inst("%s: %s on (Int,Int) -> %s" % (f.path, op, [x[0] for x in found]))
        if len(found) != 1:
            r.fail("%s | op=%s comparisons=%d" % (f.path, op, len(found)),
                   "expected exactly one ordered comparison for %s" % op,
                   where=mir.span_loc(f.span))
            continue
        name, a, b, loc = found[0]
        if name not in (meth, binop):
            r.fail("%s | op=%s uses=%s" % (f.path, op, name),
                   "operator %s is implemented with comparison %s" % (op, name), where=loc)
            continue
        if ops.same_value(f.canon_op(a), lhs_pay) and ops.same_value(f.canon_op(b), rhs_pay):
            r.ok()
        else:
            r.fail("%s | op=%s operand-order" % (f.path, op),
                   "comparison for %s is not applied to (lhs, rhs) in order" % op, where=loc)
    return r


def rule_R06_5(ctx):
    prog = ctx.prog
    r = RuleResult("R06.5", "integers enter the program only through exact "
                   "conversions: no lossy `as i64` cast and no inexact "
                   "primitive in the lexer, the grammar actions or the evaluator",
                   "a wrapping cast of a literal or length silently changes "
                   "the integer a program denotes")
    n = 0
    fns = [f for f in prog.full_fns() if (not f.generated or "::__action" in f.path)]
    for f in fns:
        if f.from_expansion:
            continue
        for bb, i, pl, rv, sp in f.assigns():
            if rv[0] == "cast" and rv[1] == "IntToInt" and rv[3] == "i64" \
                    and rv[4] in ("u64", "usize", "u128", "i128", "isize"):
                n += 1
                r.fail("%s | lossy cast %s as i64" % (f.path, rv[4]),
                       "%s converts a %s to i64 with `as`, which wraps values "
                       "above i64::MAX" % (f.path, rv[4]), where=mir.span_loc(sp))
        if f.generated:
            for c in f.calls():
                if not c.is_ptr and INEXACT.match(c.res or ""):
                    n += 1
                    r.fail("%s | primitive=%s" % (f.path, I64_METHOD.match(c.res).group(1)),
                           "grammar action %s uses the inexact i64 primitive %s"
                           % (f.path, c.res), where=c.loc)
    conv = 0
    for f in fns:
        for c in f.calls():
            d = c.declared or ""
            if d in ("std::convert::TryInto::try_into", "std::convert::TryFrom::try_from") \
                    and "i64" in (c.res_full or "") + (c.dstty or ""):
                conv += 1
            if (c.res or "").endswith("str::<impl str>::parse") and "i64" in (c.res_full or ""):
                conv += 1
    r.inst("checked conversions into i64 (try_into / parse): %d; lossy casts / inexact action primitives: %d" % (conv, n))
    r.require_floor("checked conversions into i64", conv, 2)
    if n == 0:
        r.ok()
    return r


def rule_R06_6(ctx):
    import c02
    r = c02.rule_R02_6(ctx, "R06.6")
    r.title = ("`a .. b` (and every other construct) sizes its result from "
               "existing lengths, not from the integer bounds")
    r.necessary_for = ("pre-sizing a range from its bounds aborts for a "
                       "descending or huge range that denotes a small or empty list")
    return r


def run(ctx):
    return [rule_R06_1(ctx), rule_R06_2(ctx), rule_R06_3(ctx), rule_R06_4(ctx), rule_R06_5(ctx),
            rule_R06_6(ctx)]


META = {
    "level": "other",
    "technique": "decision-table extraction from MIR discriminant switches "
                 "(relational variant dataflow) + def-use resolution of "
                 "primitive operands; census of inexact i64 primitives",
    "trusted_base": ["rustc MIR and callee resolution",
                     "std checked_*/wrapping_rem compute the documented result"],
    "assumptions": ["literal decoding, `_` separators and range "
                    "materialisation values are not decided"],
    "explanation": "Decides which std primitive computes each arithmetic "
                   "operator on two ints, with which operand order, what "
                   "happens on the overflow/zero-divisor edge, and that no "
                   "other code path computes integers. The numeric results "
                   "of the primitives themselves are trusted std behaviour.",
}
