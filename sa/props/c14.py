"""C14 — calls bind arguments to fresh parameters; `this` follows the access
path (structural clauses)."""
import anchors
import mir
import ops
import prov
from framework import RuleResult

SV = "eval::value::SourcedValue"
RAWEXPR = "ast::RawExpr"


def call_evaluator(prog):
    """The function that interprets a call: it constructs CannotCallNonFunc."""
    memo = getattr(prog, "_call_evaluator", 0)
    if memo != 0:
        return memo
    import inline
    g = None
    for f in prog.hand_fns():
        if f.is_closure or f.from_expansion:
            continue
        if any(True for _ in f.aggregates("eval::error::Error", "CannotCallNonFunc")):
            g = f
            break
    res = g

    def complete(h):
        return any(True for _ in h.aggregates("eval::error::Error", "CannotCallNonFunc")) \
            and any("eval::Escape" in (c.dstty or "") for c in h.calls())
    # the callee test may live in a private helper of the function that runs
    # the body: climb to the function whose (inlined) body does both
    cur = g
    for _ in range(4):
        if cur is None:
            break
        if complete(cur):
            res = cur
            break
        v = inline.view(prog, cur)
        if v is not cur and complete(v):
            res = v
            break
        callers = {c.fn.root_fn().path for c in prog.callers_of(cur.path)}
        if len(callers) != 1:
            break
        nxt = prog.fns.get(next(iter(callers)))
        if nxt is None or cur.path not in inline.private_helpers(prog, nxt):
            break
        cur = nxt
    prog._call_evaluator = res
    return res


def expr_evaluators(prog):
    out = []
    for f in prog.hand_fns():
        if f.is_closure or f.from_expansion or not f.locals:
            continue
        if SV not in f.locals[0]:
            continue
        if any(e == RAWEXPR for e in ops.arg_rooted_switches(f).values()):
            out.append(f)
    return out


def rule_R14_1(ctx):
    prog = ctx.prog
    r = RuleResult("R14.1", "a call evaluates its argument list and its "
                   "callee once each; list items are evaluated in one "
                   "forward pass",
                   "re-evaluating an argument or walking the list backwards "
                   "changes side-effect order and count")
    f = call_evaluator(prog)
    if f is None:
        r.anchor_missing("call evaluator (constructs CannotCallNonFunc)")
        return r
    graph = prog.call_graph()
    evs = {g.path for g in expr_evaluators(prog)}
    reach_ev = {p for p in prog.fns if evs & prog.reachable_from([p], graph)}
    calls = [c for c in f.calls() if not c.is_ptr and c.res in reach_ev
             and (c.dstty or "").startswith("std::result::Result<")]
    pre_body = []
    for c in calls:
        if "eval::Escape" in (c.dstty or ""):
            continue
        pre_body.append(c)
    r.inst("%s: evaluator calls before the body: %s" % (f.path, [(c.res, f.in_any_loop(c.bb)) for c in pre_body]))
    kinds = sorted((c.dstty or "") for c in pre_body)
    if len(pre_body) == 2 and not any(f.in_any_loop(c.bb) for c in pre_body):
        r.ok()
    else:
        r.fail("%s | pre-body evaluator calls=%d in-loop=%s" % (f.path, len(pre_body), [f.in_any_loop(c.bb) for c in pre_body]),
               "the call evaluator must evaluate the argument list once and "
               "the callee once; found %s" % [(c.res, f.in_any_loop(c.bb)) for c in pre_body])
    # list items: single forward loop
    lists = [g for g in prog.hand_fns() if not g.is_closure and not g.from_expansion and g.locals
             and "std::vec::Vec<eval::value::SourcedValue>" in g.locals[0]
             and g.locals[0].startswith("std::result::Result<")
             and any(anchors.is_seq_ref(t, "ast::ListItem") for t in g.locals[1:g.arg_count + 1])]
    if not r.require_floor("list-item evaluator", len(lists), 1):
        return r
    g = lists[0]
    if not any((not c.is_ptr) and c.res in evs and g.in_any_loop(c.bb) for c in g.calls()):
        import inline
        g = inline.view(prog, g)     # per-item helper
    loops = g.natural_loops()
    ev_in_loop = [c for c in g.calls() if not c.is_ptr and c.res in evs and g.in_any_loop(c.bb)]
    revs = [c for c in g.calls() if (c.res or "").split("::")[-1] in ("rev", "next_back", "rfold", "rposition")]
    outer = [h for h in loops if not any(h in b and h != hh for hh, b in loops.items())]
    r.inst("%s: %d top-level loop(s), %d evaluator call(s) per iteration, reverse iteration: %s"
           % (g.path, len(outer), len(ev_in_loop), bool(revs)))
    if len(outer) == 1 and len(ev_in_loop) == 1 and not revs:
        r.ok()
    else:
        r.fail("%s | loops=%d evals-per-iteration=%d reversed=%s" % (g.path, len(outer), len(ev_in_loop), bool(revs)),
               "list items must be evaluated once each in one forward pass")
    return r


def rule_R14_2(ctx):
    prog = ctx.prog
    r = RuleResult("R14.2", "`this` is attached exactly where a value is "
                   "read from an object (or type namespace), with that "
                   "container as the source; operator results carry none",
                   "a source attached elsewhere (or the wrong container) "
                   "makes `this` differ from the object the function was "
                   "read from")
    # constructors of SourcedValue with a Some source
    some_sites = []
    for f in prog.hand_fns():
        if f.from_expansion:
            continue
        for bb, i, pl, kd, aops, sp in f.aggregates(SV):
            si = kd["fields"].index("source")
            cp = f.canon_op(aops[si])
            is_none = False
            if cp[0][0] == "agg":
                st = f.stmts(cp[0][1])[cp[0][2]]
                is_none = st[2][1].get("variant") == "None"
            some_sites.append((f, is_none, sp))
    with_src = [f for f, n, sp in some_sites if not n]
    r.inst("SourcedValue constructors: %s" % [(f.path, "source: None" if n else "source: Some/param") for f, n, sp in some_sites])
    if len(set(f.path for f in with_src)) == 1:
        r.ok()
    else:
        r.fail("sourced-constructors=%s" % ",".join(sorted(set(f.path for f in with_src))),
               "values with a `this` source are built in %s; expected one "
               "constructor" % sorted(set(f.path for f in with_src)))
        return r
    ctor = with_src[0]
    evs = {g.path for g in expr_evaluators(prog)}
    import inline
    ev_helpers = set()
    for e in expr_evaluators(prog):
        ev_helpers |= inline.private_helpers(prog, e)
    callers = prog.callers_of(ctor.path)
    for c in callers:
        g = c.fn
        in_ev = g.root_fn().path in evs or g.root_fn().path in ev_helpers
        # the source argument is (a clone of) the value that was just evaluated
        src = c.args[1]
        cp = g.canon_op(src)
        ok_src = False
        desc = str(cp)
        if cp[0][0] == "call":
            cc = g.call_at(cp[0][1])
            if cc is not None and (cc.declared or "") == "std::clone::Clone::clone":
                inner = g.canon_op(cc.args[0])
                base = [p for p in inner if p not in ("&", "*")]
                # base is <local>.v where local holds the evaluated container
                if base and base[0][0] in ("local", "call"):
                    root_local = None
                    src_call = None
                    if base[0][0] == "call":
                        src_call = ops.try_chain_source(g, cc.args[0])
                    desc = "clone of the value evaluated by %s" % (src_call.res if src_call else base[0],)
                    ok_src = True if (src_call is None or src_call.res in evs) else False
            elif cc is not None:
                # the evaluated container itself, moved instead of cloned
                src_call = ops.try_chain_source(g, src)
                if src_call is not None and src_call.res in evs:
                    desc = "the value evaluated by %s (moved)" % src_call.res
                    ok_src = True
        r.inst("%s: source = %s" % (g.path, desc))
        if in_ev and ok_src:
            r.ok()
        else:
            r.fail("%s | this-source=%s" % (g.path, desc[:50]),
                   "%s attaches a `this` source that is not the container "
                   "expression it has just evaluated (%s)" % (g.path, desc), where=c.loc)
    r.require_floor("sites attaching a `this` source", len(callers), 2)
    return r


def _var_name(f, op):
    cp = f.canon_op(op)
    if cp[0][0] == "call":
        cc = f.call_at(cp[0][1])
        if cc is not None and cc.args:
            c2 = f.canon_op(cc.args[0])
            if c2[0][0] == "const":
                return c2[0][1]
    return None


def rule_R14_3(ctx):
    prog = ctx.prog
    r = RuleResult("R14.3", "a `this` binding is added to a call iff the "
                   "callee value carries a source, and its value is that source",
                   "binding `this` unconditionally, or to another value, "
                   "breaks `this` for plain calls or method calls")
    f = call_evaluator(prog)
    if f is None:
        r.anchor_missing("call evaluator")
        return r
    def this_sites(f):
        return [1 for bb, i, pl, kd, aops, sp in f.aggregates(RAWEXPR, "Var")
                if _var_name(f, aops[0]) in ("'this'", '"this"')]
    if not this_sites(f):
        # the bindings may be assembled in a private helper of the call evaluator
        import inline
        fv = inline.view(prog, getattr(f, "base", f))
        if this_sites(fv):
            f = fv
    sites = []
    for bb, i, pl, kd, aops, sp in f.aggregates(RAWEXPR, "Var"):
        cp = f.canon_op(aops[0])
        nm = None
        if cp[0][0] == "call":
            cc = f.call_at(cp[0][1])
            if cc is not None and cc.args:
                c2 = f.canon_op(cc.args[0])
                if c2[0][0] == "const":
                    nm = c2[0][1]
        if nm in ("'this'", '"this"'):
            sites.append((bb, sp))
    if not r.require_floor("construction of the `this` variable node", len(sites), 1):
        return r
    for bb, sp in sites:
        # dominated by the Some edge of a switch on an Option<Value>
        ok = False
        for sb in range(len(f.blocks)):
            if f.is_cleanup(sb) or f.term(sb)["k"] != "switch":
                continue
            info = f.switch_info(sb)
            if not info or info["kind"] != "discr":
                continue
            if not info["enum"].startswith("std::option::Option<eval::value::Value>"):
                # `source.map(wrap)`: an Option that is Some exactly when the
                # callee's source is
                okm = False
                if info["enum"].startswith("std::option::Option<eval::value::SourcedValue>"):
                    cpm = f.canon(info["place"])
                    cm = f.call_at(cpm[0][1]) if cpm and cpm[0][0] == "call" and len([p for p in cpm if p not in ("&", "*")]) == 1 else None
                    okm = cm is not None and (cm.res or "").endswith("Option::<T>::map") and cm.argtys \
                        and cm.argtys[0].startswith("std::option::Option<eval::value::Value>")
                if not okm:
                    continue
            some_t = dict(info["cases"]).get("Some")
            if some_t is None:
                continue
            if f.dominates(some_t, bb):
                cpp = f.canon(info["place"])
                ok = True
                r.inst("%s: `this` bound under Some(source) of %s" % (f.path, cpp))
                # ... and on every path from that edge: no further condition
                # may skip the binding (the other edge's first block is where
                # the two paths can rejoin)
                none_t = info["otherwise"]
                for nme, tgt in info["cases"]:
                    if nme == "None":
                        none_t = tgt
                seen_ = set()
                st_ = [some_t]
                skips = False
                # blocks reachable from the None edge = "after the decision"
                after = f.reach_from(none_t)
                while st_:
                    x = st_.pop()
                    if x in seen_ or x == bb:
                        continue
                    seen_.add(x)
                    if x in after and x != some_t:
                        skips = True
                        break
                    st_.extend(f.succs(x))
                if skips:
                    r.fail("%s | this binding can be skipped although a source exists" % f.path,
                           "a path from `source is Some` rejoins the common "
                           "code without adding the `this` binding: an "
                           "extra condition decides whether `this` is bound",
                           where=mir.span_loc(sp))
                else:
                    r.ok()
        if ok:
            r.ok()
        else:
            r.fail("%s | this bound unconditionally" % f.path,
                   "the `this` binding is not conditional on the callee "
                   "value carrying a source", where=mir.span_loc(sp))
    return r


def rule_R14_4(ctx):
    prog = ctx.prog
    r = RuleResult("R14.4", "parameters are declared (not assigned) in the "
                   "scope freshly pushed for the call",
                   "assigning parameters, or binding them in an existing "
                   "scope, lets a call overwrite the caller's variables")
    found = 0
    import c04
    for f in prog.hand_fns():
        if f.from_expansion:
            continue
        import anchors
        pushers = {p.path for p in anchors.scope_pushers(prog)}
        lent = None
        if f.is_closure:
            # a closure that a callback-style pusher lends the new chain to
            lent = c04._lent_by_pusher(prog, f, 2)
            if lent is None:
                continue
            pushes = []
        else:
            pushes = [c for c in f.calls() if not c.is_ptr and c.res in pushers
                      and anchors.callback_param(prog.fns[c.res]) is None]
            if not pushes:
                continue
        bm = anchors.binder_module(prog)

        def reaches_binder(path_, depth=0):
            # a binder-module function, or a thin method that only forwards to one
            if (path_ or "").startswith(bm + "::"):
                return True
            h_ = prog.fns.get(path_)
            if h_ is None or not h_.full or depth > 1 or len(h_.blocks) > 12:
                return False
            return any((not c_.is_ptr) and reaches_binder(c_.res, depth + 1) for c_ in h_.calls())
        binds = [c for c in f.calls() if not c.is_ptr and reaches_binder(c.res)
                 and f.in_any_loop(c.bb)]
        for c in binds:
            found += 1
            # scope argument derives from the pushed chain
            si = [i for i, t in enumerate(c.argtys) if anchors.is_chain_ty(prog, t)]
            bi = [i for i, t in enumerate(c.argtys) if t == "eval::bind::BindType"]
            ok_scope = False
            if si:
                cp = tuple(p for p in f.canon_op(anchors.unwrap_carrier(prog, f, c.args[si[0]]))
                           if p not in ("&", "*"))
                ok_scope = bool(cp) and (cp[0] == ("call", pushes[0].bb) if pushes
                                         else (cp[0] == ("arg", 2) and len(cp) == 1))
            ok_decl = False
            if bi:
                cp = f.canon_op(c.args[bi[0]])
                if cp[0][0] == "agg":
                    st = f.stmts(cp[0][1])[cp[0][2]]
                    ok_decl = st[2][1].get("variant") == "Declaration"
            r.inst("%s: binds into pushed scope=%s as declaration=%s" % (f.path, ok_scope, ok_decl))
            if ok_scope and ok_decl:
                r.ok()
            else:
                r.fail("%s | new-bindings pushed-scope=%s declaration=%s" % (f.path, ok_scope, ok_decl),
                       "%s binds the bindings of a new block/call without "
                       "declaring them in the freshly pushed scope" % f.path, where=c.loc)
    r.require_floor("binding loops in scope-pushing functions", found, 1)
    return r


def _always_after(f, a, bs):
    """Every path from block a to a return passes through one of the blocks bs."""
    rets = [x for x in range(len(f.blocks)) if f.term(x)["k"] == "return"]
    reach = f.reach_from(a, avoid=tuple(bs))
    return not any(x in reach for x in rets)


def rule_R14_6(ctx):
    prog = ctx.prog
    r = RuleResult("R14.6", "a stored value and its `this` source are replaced "
                   "together: no write updates only one field of a "
                   "SourcedValue slot",
                   "overwriting only `.v` leaves the slot with the `this` "
                   "source of the value it held before (a function stored "
                   "over another one is later called with the wrong `this`)")
    n = 0
    whole = 0
    for f in prog.hand_fns():
        if f.from_expansion:
            continue
        for bb in range(len(f.blocks)):
            if f.is_cleanup(bb):
                continue
            dsts = [(s[1], mir.span_loc(s[3]) if len(s) > 3 else f.path) for s in f.stmts(bb)
                    if s[0] == "=" and s[1][1]]
            t = f.term(bb)
            if t["k"] == "call" and t.get("dst") and t["dst"][1]:
                dsts.append((t["dst"], mir.span_loc(t.get("span"))))
            for pl, loc in dsts:
                projs = [p for p in pl[1]]
                # a store through a reference into a slot ...
                if "*" not in projs:
                    continue
                last = projs[-1]
                tys = [p for p in projs if p != "*" and p[0] == "f" and len(p) > 4 and p[4] == SV]
                if not tys:
                    # whole-slot stores `*slot = value` of a SourcedValue
                    if last == "*" and pl[0] < len(f.locals) and SV in f.locals[pl[0]] \
                            and f.locals[pl[0]].startswith("&mut"):
                        whole += 1
                    continue
                # (both halves written one after the other is a whole-slot store)
                # ... on the same paths: the store of the other half sits in a
                # block that dominates this one or that every path from this
                # one passes through (a conditional store of the other half
                # keeps the previous occupant's half on the other branch)
                both = {tys[-1][3]}
                others = set()      # blocks that store the other half of this slot
                for b2 in range(len(f.blocks)):
                    if f.is_cleanup(b2):
                        continue
                    for s2 in f.stmts(b2):
                        if s2[0] == "=" and s2[1][0] == pl[0]:
                            for p2 in s2[1][1]:
                                if p2 != "*" and p2[0] == "f" and len(p2) > 4 and p2[4] == SV \
                                        and p2[3] != tys[-1][3]:
                                    others.add(b2)
                if others and (any(b2 == bb or f.dominates(b2, bb) for b2 in others)
                               or _always_after(f, bb, others)):
                    both |= {"v", "source"}
                if {"v", "source"} <= both:
                    whole += 1
                    continue
                n += 1
                r.fail("%s | partial update of a stored value field=%s" % (f.path, tys[-1][3]),
                       "%s overwrites only the `%s` field of a stored "
                       "SourcedValue: the other half (value / `this` source) "
                       "of the previous occupant is kept" % (f.path, tys[-1][3]), where=loc)
    r.inst("whole-slot stores through &mut SourcedValue: %d; field-only stores: %d" % (whole, n))
    if not n:
        r.ok()
    r.require_floor("whole-slot stores (`*slot = value`)", whole, 1)
    return r


def _places_feeding(f, operand, depth=0):
    """Places read on the single-definition copy chain of an operand."""
    out = []
    if not mir.is_place_operand(operand) or depth > 8:
        return out
    pl = mir.op_place(operand)
    out.append(pl)
    if not pl[1]:
        sd = f.single_def(pl[0])
        if sd and sd[2] == "rv":
            rv = sd[3]
            if rv[0] == "use":
                out.extend(_places_feeding(f, rv[1], depth + 1))
            elif rv[0] in ("cfd",):
                out.append(rv[1])
            elif rv[0] == "ref":
                out.append(rv[2])
        else:
            for (bb, idx, kind, payload) in f.defs().get(pl[0], []):
                if kind == "rv" and payload[0] == "use":
                    out.extend(_places_feeding(f, payload[1], depth + 1))
    return out


def rule_R14_5(ctx):
    import anchors
    prog = ctx.prog
    r = RuleResult("R14.5", "storing a value keeps its `this` source: in the "
                   "binder only operator results are re-wrapped as source-less",
                   "dropping the source on `=` makes a method stored in a "
                   "variable or list lose its `this`")
    cands = ops.find_operator_fn(prog)
    if len(cands) != 1:
        r.anchor_missing("operator function")
        return r
    ofn = cands[0][0]
    bmod = anchors.binder_module(prog)
    smod = anchors.scope_module(prog)
    ctors = [f for f in prog.hand_fns() if f.module.startswith(anchors.value_module(prog))
             and any(True for _ in f.aggregates(SV))]
    noscr = set()
    for f in ctors:
        for bb, i, pl, kd, aops, sp in f.aggregates(SV):
            si = kd["fields"].index("source")
            cp = f.canon_op(aops[si])
            if cp[0][0] == "agg":
                st = f.stmts(cp[0][1])[cp[0][2]]
                if st[2][1].get("variant") == "None":
                    vi = kd["fields"].index("v")
                    vcp = f.canon_op(aops[vi])
                    if vcp[0][0] == "arg":
                        noscr.add(f.path)
    if not r.require_floor("source-less value constructor", len(noscr), 1):
        return r
    n = 0
    for f in prog.hand_fns():
        if f.from_expansion or not (f.module.startswith(bmod) or f.module.startswith(smod)):
            continue
        for c in f.calls():
            if c.is_ptr or c.res not in noscr:
                continue
            n += 1
            src = ops.try_chain_source(f, c.args[0])
            r.inst("%s: re-wraps %s as source-less" % (f.path, src.res if src else f.canon_op(c.args[0])))
            # the hazard: the Value is the `.v` of an existing SourcedValue
            # (whose `.source` is thereby dropped)
            from_sv = False
            for s_ in _places_feeding(f, c.args[0]):
                for pr in s_[1]:
                    if pr != "*" and pr[0] == "f" and len(pr) > 4 and pr[4] == SV and pr[3] == "v":
                        from_sv = True
            if not from_sv:
                r.ok()
            else:
                if False:
                    pass
                else:
                    r.fail("%s | source dropped on store" % f.path,
                           "%s re-wraps a value that is not an operator "
                           "result as source-less before storing it: a "
                           "function read from an object loses its `this`"
                           % f.path, where=c.loc)
    r.require_floor("source-less re-wraps in the binder", n, 1)
    return r


def run(ctx):
    return [rule_R14_1(ctx), rule_R14_2(ctx), rule_R14_3(ctx), rule_R14_4(ctx), rule_R14_5(ctx),
            rule_R14_6(ctx)]


META = {
    "level": "other",
    "technique": "call/loop placement (CFG dominance), constructor census "
                 "and def-use resolution of the `this` source, dominance of "
                 "the Some(source) test over the `this` binding",
    "trusted_base": ["rustc MIR", "derive(Clone) copies SourcedValue whole"],
    "assumptions": ["preservation of a source along arbitrary routes "
                    "(variables, lists, returns) is not decided; arity is C13"],
    "explanation": "Decides where `this` is attached and consumed, that "
                   "arguments and callee are evaluated once, and that "
                   "parameters are declarations in the call's fresh scope.",
}
