"""C11 — list/string indexing, slicing and concatenation obey the sequence
laws (the accepted index/bound domains)."""
import re
import mir
import guards
import ops
from ops import ERR
from framework import RuleResult

# reject-side error -> documented reject condition over the error's own fields
EXPECT = {
    "NegativeIndex": ("Lt", "index", ("const", 0)),
    "RangeStartOutOfListBounds": ("Gt", "start", "list_len"),
    "RangeStartNotBeforeEnd": ("Ge", "start", "end"),
    "RangeEndOutOfListBounds": ("Gt", "end", "list_len"),
    "RangeIndexItemMismatch": ("Ne", "range_len", "rhs_len"),
}
VEC_SV = "std::vec::Vec<eval::value::SourcedValue>"


VIEW_MODE = [False]


def owner_fns(prog):
    """The hand-written functions; in view mode (the fallback of
    `with_views`) each one with the evaluator's shared helpers and its private
    helpers inlined, the shared helpers themselves left out: a bounds rule
    that moved into `container::get_list_item` is then read in the context of
    every function that relies on it."""
    import inline
    for f in prog.hand_fns():
        if not VIEW_MODE[0] or f.is_closure:
            yield f
            continue
        if f.path in inline.shared_helpers(prog):
            continue
        yield inline.view(prog, f, shared=True)


def with_views(rule, ctx, *args):
    """Run `rule` on the plain functions; if it does not prove the property,
    run it again on the views (`owner_fns`).  Either proof suffices: inlining
    preserves behaviour, so both analyses are sound."""
    r = rule(ctx, *args)
    if not r.violations:
        return r
    VIEW_MODE[0] = True
    try:
        r2 = rule(ctx, *args)
    finally:
        VIEW_MODE[0] = False
    if not r2.violations:
        r2.notes.append("decided on views with the evaluator's shared helpers inlined")
        return r2
    return r


def err_sites(prog, variant, module_prefix="eval"):
    for f in owner_fns(prog):
        if f.from_expansion or not f.module.startswith(module_prefix):
            continue
        for bb, i, pl, kd, aops, sp in f.aggregates(ERR, variant):
            yield f, bb, kd, aops, sp


def rule_guard_tables(ctx, rule_id, expect, title, why):
    prog = ctx.prog
    r = RuleResult(rule_id, title, why)
    for variant, exp in expect.items():
        sites = list(err_sites(prog, variant))
        if not sites:
            r.fail("anchor-missing error=%s" % variant,
                   "no construction site of Error::%s was found: the "
                   "documented rejection it implements cannot be checked "
                   "(check removed?)" % variant)
            continue
        for f, bb, kd, aops, sp in sites:
            g = guards.guard_of(f, bb)
            fields = guards.field_terms(f, kd, aops)
            if g is None:
                r.unproven.append("%s: Error::%s is not guarded by a comparison" % (f.path, variant))
                continue
            sw, op, a, b, pass_t = g
            rs = guards.rel_str(op, a, b)
            r.inst("%s: %s raised when %s" % (f.path, variant, rs))
            if guards.matches((op, a, b), exp, fields):
                r.ok()
            else:
                r.fail("%s | error=%s guard=%s" % (f.root_fn().path, variant, guards.SYM[op]),
                       "Error::%s in %s is raised when %s; documented "
                       "condition: %s %s %s (over the values the error "
                       "reports)" % (variant, f.path, rs, exp[1], guards.SYM[exp[0]], exp[2]),
                       where=mir.span_loc(sp))
    return r


def rule_R11_1(ctx):
    return rule_guard_tables(ctx, "R11.1", {"NegativeIndex": EXPECT["NegativeIndex"]},
                             "an index is rejected exactly when it is negative "
                             "(before conversion to an offset)",
                             "another comparison admits a negative index or "
                             "rejects index 0")


def total_lookup_guard(f, bb, index_term):
    """If block bb (an error construction) lies on the None edge of a
    `slice::get(index)` / `Vec::get(index)` over a value container whose
    index argument is `index_term`: (switch block, Some edge, None edge)."""
    idom = f.idoms()
    cur = bb
    for _ in range(64):
        if cur not in idom or cur == 0:
            return None
        cur = idom[cur]
        if f.term(cur)["k"] != "switch":
            continue
        info = f.switch_info(cur)
        if not info or info["kind"] != "discr" or not info["enum"].startswith("std::option::Option<"):
            continue
        cp = f.canon(info["place"])
        if not cp or cp[0][0] != "call":
            continue
        c = f.call_at(cp[0][1])
        if c is None or c.is_ptr or (c.res or "").split("::")[-1] != "get" or len(c.args) < 2:
            continue
        a0 = (c.argtys[0] if c.argtys else "").replace("&mut ", "").replace("&", "")
        if not a0.startswith(("std::vec::Vec<", "[")):
            continue
        if index_term is None or guards.var_of(f, c.args[1]) != index_term:
            continue
        cases = dict(info["cases"])
        some_t, none_t = cases.get("Some", info["otherwise"]), cases.get("None", info["otherwise"])
        if some_t == none_t or not f.dominates(none_t, bb):
            return None
        return (cur, some_t, none_t)
    return None


def rule_R11_3(ctx):
    prog = ctx.prog
    r = RuleResult("R11.3", "element assignment rejects exactly index >= "
                   "len, and every element write is behind that test",
                   "`>` instead of `>=` lets index == len through to a "
                   "panicking write")
    n = 0
    for f, bb, kd, aops, sp in err_sites(prog, "OutOfListBounds", __import__("anchors").binder_module(prog)):
        n += 1
        fields = guards.field_terms(f, kd, aops)
        tl = total_lookup_guard(f, bb, fields.get("index"))
        if tl is not None:
            # `match items.get(index) { Some(v) => .., None => Err(OutOfListBounds) }`:
            # the total lookup answers None exactly when index >= len
            sw, pass_t, fail_t = tl
            r.inst("%s: OutOfListBounds raised on the None answer of the total lookup `get(index)`" % f.path)
            r.ok()
        else:
            g = guards.guard_of(f, bb)
            if g is None:
                r.unproven.append("%s: OutOfListBounds not guarded by a comparison" % f.path)
                continue
            sw, op, a, b, pass_t = g
            fail_t = None
            r.inst("%s: OutOfListBounds raised when %s" % (f.path, guards.rel_str(op, a, b)))
            if guards.matches((op, a, b), ("Ge", "index", ("len",)), fields):
                r.ok()
            else:
                r.fail("%s | error=OutOfListBounds guard=%s" % (f.path, guards.SYM[op]),
                       "element assignment rejects when %s; documented: index >= len"
                       % guards.rel_str(op, a, b), where=mir.span_loc(sp))
        # element accesses by that index are dominated by the pass edge
        idx_var = fields.get("index")
        sites = []
        for c in f.calls():
            d = c.declared or ""
            if d in ("std::ops::Index::index", "std::ops::IndexMut::index_mut") \
                    and c.argtys and VEC_SV in c.argtys[0] and len(c.args) > 1:
                if guards.var_of(f, c.args[1]) == idx_var:
                    sites.append(c)
        for c in sites:
            if f.dominates(pass_t, c.bb):
                r.ok()
            elif fail_t is not None and f.dominates(sw, c.bb) and c.bb not in mir.flag_reach(f, fail_t):
                # relational dominance: the test dominates the access and the
                # access cannot be reached from the failing answer (the
                # answer travels in a Result/Option local that is matched later)
                r.ok()
            else:
                r.fail("%s | element access not behind the bounds test" % f.path,
                       "%s indexes the target list with the assignment index "
                       "on a path that has not passed `index < len`" % f.path, where=c.loc)
        r.inst("%s: %d element accesses by the checked index" % (f.path, len(sites)))
    r.require_floor("element-assignment bounds checks", n, 1)
    return r


def rule_R11_4(ctx):
    prog = ctx.prog
    exp = {k: EXPECT[k] for k in ("RangeStartOutOfListBounds", "RangeStartNotBeforeEnd",
                                  "RangeEndOutOfListBounds", "RangeIndexItemMismatch")}
    r = rule_guard_tables(ctx, "R11.4", exp,
                          "range assignment rejects exactly start > len, "
                          "start >= end, end > len and (end - start) != "
                          "len(rhs); all writes are behind all four tests",
                          "a weaker test accepts a range outside the list or "
                          "an empty range, or writes a different number of items")
    # range_len is end - start
    for f, bb, kd, aops, sp in err_sites(prog, "RangeIndexItemMismatch"):
        fields = guards.field_terms(f, kd, aops)
        rl = fields.get("range_len")
        # resolve the variable's definition
        t = rl
        if rl and rl[0] == "var":
            ds = f.defs().get(rl[1], [])
            if len(ds) == 1 and ds[0][2] == "rv":
                t = guards.var_of(f, ["cp", [rl[1], []]])
                rv = ds[0][3]
                if rv[0] == "use":
                    t = guards.var_of(f, rv[1])
        ends = set()
        starts = set()
        for f2, bb2, kd2, ao2, sp2 in err_sites(prog, "RangeStartNotBeforeEnd"):
            if f2 is f:
                ft = guards.field_terms(f2, kd2, ao2)
                ends.add(ft.get("end"))
                starts.add(ft.get("start"))
        r.inst("%s: range_len = %s" % (f.path, guards.term_str(t) if t else None))
        if t and t[0] == "sub" and t[1] in ends and t[2] in starts:
            r.ok()
        else:
            r.fail("%s | range_len is not end - start" % f.path,
                   "the number of items a range assignment expects is %s, "
                   "not end - start" % (guards.term_str(t) if t else "?"), where=mir.span_loc(sp))
        # all writes dominated by all pass edges
        passes = []
        for variant in exp:
            for f2, bb2, kd2, ao2, sp2 in err_sites(prog, variant):
                if f2 is f:
                    g = guards.guard_of(f2, bb2)
                    if g:
                        passes.append((variant, g[4], g[0]))
        writes = [c for c in f.calls() if (c.declared or "") == "std::ops::IndexMut::index_mut"
                  and c.argtys and VEC_SV in c.argtys[0]]
        if VIEW_MODE[0]:
            # a view may hold several inlined copies of the range assignment
            # and unrelated element writes: this site's writes are the ones
            # that follow its own pass edge, and its guards the ones whose
            # test dominates the write
            mine = guards.guard_of(f, bb)
            after = f.reach_from(mine[4]) if mine else set()
            writes = [c for c in writes if c.bb in after]
        r.inst("%s: %d element writes, %d guards" % (f.path, len(writes), len(passes)))

        def behind(sw_, pass_, c_):
            if f.dominates(pass_, c_.bb):
                return True
            # relational dominance: the test dominates the write and the
            # write cannot be reached from its failing edge (the verdict
            # travels in a Result that is matched later)
            fails = [x for x in f.succs(sw_) if x != pass_]
            return rdom(sw_, c_.bb) and all(c_.bb not in mir.flag_reach(f, x) for x in fails)

        def rdom(sw_, target):
            """every flag-consistent path from the entry to `target` passes sw_"""
            return f.dominates(sw_, target) or target not in mir.flag_reach(f, 0, avoid=[sw_])
        for c in writes:
            rel = [(v, p, sw_) for v, p, sw_ in passes if not VIEW_MODE[0] or rdom(sw_, c.bb)]
            bad = [v for v, p, sw_ in rel if not behind(sw_, p, c)]
            if not bad and len(set(v for v, _, _ in rel)) == 4 and (VIEW_MODE[0] or len(passes) == 4):
                r.ok()
            else:
                r.fail("%s | write not behind tests %s" % (f.path, ",".join(bad) or "missing"),
                       "a range-assignment write is reachable without passing %s" % (bad or "all four tests"),
                       where=c.loc)
    return r


def rule_R11_5(ctx):
    prog = ctx.prog
    r = RuleResult("R11.5", "an omitted bound defaults to 0 (start) and to "
                   "the length of the indexed list itself (end)",
                   "defaulting the end to anything else (e.g. the length of "
                   "the assigned list) rejects or misplaces `xs[a:] = ys`")
    n = 0
    # assignment: the `end` the errors talk about has, besides the evaluated
    # bound, exactly one other definition: the variable reported as list_len
    for f, bb, kd, aops, sp in err_sites(prog, "RangeEndOutOfListBounds"):
        n += 1
        fields = guards.field_terms(f, kd, aops)
        end_v, len_v = fields.get("end"), fields.get("list_len")
        if end_v and end_v[0] == "call" and (end_v[1] or "").split("::")[-1] in ("unwrap_or", "get_or_insert"):
            # `end.unwrap_or(list_len)`: the default is the call's second argument
            dc = f.call_at(end_v[2])
            d = guards.var_of(f, dc.args[1]) if dc is not None and len(dc.args) > 1 else ("unknown",)
            r.inst("%s: range end defaults to %s; list_len is %s"
                   % (f.path, guards.term_str(d), guards.term_str(len_v) if len_v else None))
            # ... and no other default was supplied in front of it
            # (`end.or(Some(n)).unwrap_or(len)`)
            pre = guards.var_of(f, dc.args[0]) if dc is not None and dc.args else ("unknown",)
            shadow = pre[0] == "call" and (pre[1] or "").split("::")[-1] in (
                "or", "or_else", "xor", "unwrap_or", "map_or", "get_or_insert", "get_or_insert_with", "insert", "replace")
            if shadow:
                r.fail("%s | omitted-end default=%s" % (f.path, (pre[1] or "").split("::")[-1]),
                       "the omitted end of a range assignment is defaulted by %s before the "
                       "length of the list being updated is consulted" % pre[1], where=mir.span_loc(sp))
            elif len_v and d == len_v:
                r.ok()
            else:
                r.fail("%s | omitted-end default=%s" % (f.path, guards.term_str(d)),
                       "an omitted range-assignment end defaults to %s, which is "
                       "not the length of the list being updated (%s)"
                       % (guards.term_str(d), guards.term_str(len_v) if len_v else "?"), where=mir.span_loc(sp))
            continue
        if not end_v or end_v[0] != "var":
            r.unproven.append("%s: range end is not a variable" % f.path)
            continue
        defs = []
        for (b2, i2, kind, payload) in f.defs().get(end_v[1], []):
            if kind == "rv" and payload[0] == "use":
                defs.append(guards.var_of(f, payload[1]))
            elif kind == "call":
                defs.append(("call", payload.res, payload.bb))
            else:
                defs.append(("unknown",))
        defaults = [d for d in defs if d[0] != "call" and not (d[0] == "field" and d[1][0] == "call")]
        r.inst("%s: range end is one of %s; list_len is %s"
               % (f.path, [guards.term_str(d) for d in defs], guards.term_str(len_v) if len_v else None))
        if defaults and all(d == len_v for d in defaults):
            r.ok()
        else:
            r.fail("%s | omitted-end default=%s" % (f.path, ",".join(guards.term_str(d) for d in defaults)),
                   "an omitted range-assignment end defaults to %s, which is "
                   "not the length of the list being updated (%s)"
                   % ([guards.term_str(d) for d in defaults], guards.term_str(len_v) if len_v else "?"),
                   where=mir.span_loc(sp))
        # list_len is the length of the target list (a locked Vec), not of the rhs slice
        if len_v and len_v[0] == "var":
            ds = f.defs().get(len_v[1], [])
            tys = [p.argtys[0] for (_, _, k, p) in ds if k == "call" and p.argtys]
            if tys and all(VEC_SV in t and "[" not in t.split("<")[0] for t in tys):
                r.ok()
            else:
                r.fail("%s | list_len source=%s" % (f.path, tys),
                       "list_len is not the length of the target list")
        for f2, b2, kd2, ao2, sp2 in err_sites(prog, "RangeStartOutOfListBounds"):
            if f2 is not f:
                continue
            st = guards.field_terms(f2, kd2, ao2).get("start")
            if st and st[0] == "var":
                sdefs = []
                for (b3, i3, kind, payload) in f.defs().get(st[1], []):
                    if kind == "rv" and payload[0] == "use":
                        sdefs.append(guards.var_of(f, payload[1]))
                    elif kind == "call":
                        sdefs.append(("call", payload.res, payload.bb))
                dflt = [d for d in sdefs if d[0] != "call" and not (d[0] == "field" and d[1][0] == "call")]
                r.inst("%s: range start is one of %s" % (f.path, [guards.term_str(d) for d in sdefs]))
                if dflt and all(d == ("const", 0) for d in dflt):
                    r.ok()
                else:
                    r.fail("%s | omitted-start default=%s" % (f.path, [guards.term_str(d) for d in dflt]),
                           "an omitted range start must default to 0")
    # reads: get_or_insert defaults
    for variant in ("RangeOutOfListBounds", "RangeOutOfStringBounds"):
        for f, bb, kd, aops, sp in err_sites(prog, variant):
            n += 1
            gois = [c for c in f.calls() if (c.res or "").endswith("Option::<T>::get_or_insert")]
            gets = [c for c in f.calls() if (c.res or "").split("::")[-1] == "get"
                    and any("std::ops::Range<usize>" in t for t in c.argtys)]
            if len(gois) != 2 or not gets:
                continue      # other idioms: see the range-lookup pass below
            terms = [guards.var_of(f, c.args[1]) for c in gois]
            zero = [t for t in terms if t == ("const", 0)]
            lens = [t for t in terms if t[0] == "len"]
            recv_get = tuple(p for p in f.canon_op(gets[0].args[0]) if p not in ("&", "*"))
            same = False
            if lens:
                lc = f.call_at(lens[0][1])
                recv_len = tuple(p for p in f.canon_op(lc.args[0]) if p not in ("&", "*"))
                # both rooted at the same parameter
                ra = _root_arg(f, lc.args[0])
                rb = _root_arg(f, gets[0].args[0])
                same = ra is not None and ra == rb
            r.inst("%s: read defaults %s; len of the sliced value: %s" % (f.path, [guards.term_str(t) for t in terms], same))
            if len(zero) == 1 and len(lens) == 1 and same:
                r.ok()
            else:
                r.fail("%s | read-defaults=%s" % (f.path, ",".join(guards.term_str(t) for t in terms)),
                       "omitted bounds of a range read must default to 0 and "
                       "to the length of the value being sliced", where=mir.span_loc(sp))
    # wherever a range lookup `x.get(start..end)` lives: bounds that come out of
    # an Option default (`unwrap_or`, `get_or_insert`) default to 0 and len(x)
    DEFAULTING = ("unwrap_or", "get_or_insert")
    for f in owner_fns(prog):
        if f.from_expansion:
            continue
        for c in f.calls():
            if c.is_ptr or (c.res or "").split("::")[-1] != "get" \
                    or not any(t.startswith("std::ops::Range<") for t in c.argtys[1:]):
                continue
            if any((x.res or "").endswith("Option::<T>::get_or_insert") for x in f.calls()):
                continue      # handled above
            cp = f.canon_op(c.args[1])
            if cp[0][0] != "agg":
                r.unproven.append("%s: range of the lookup is not built here" % f.path)
                continue
            st = f.stmts(cp[0][1])[cp[0][2]]
            kd, aops = st[2][1], st[2][2]
            if kd.get("adt") != "std::ops::Range" or len(aops) != 2:
                continue
            n += 1
            dflt = {}
            for nm, o in zip(("start", "end"), aops):
                t = guards.var_of(f, o)
                if t[0] == "call" and (t[1] or "").split("::")[-1] in DEFAULTING:
                    dc = f.call_at(t[2])
                    dflt[nm] = guards.var_of(f, dc.args[1])
            if len(dflt) != 2:
                r.unproven.append("%s: bounds of the range lookup are not defaulted here" % f.path)
                continue
            same = False
            if dflt["end"][0] == "len":
                lc = f.call_at(dflt["end"][1])
                ra = _root_arg(f, lc.args[0])
                rb = _root_arg(f, c.args[0])
                same = ra is not None and ra == rb
            r.inst("%s: lookup defaults start=%s end=%s (len of the sliced value: %s)"
                   % (f.path, guards.term_str(dflt["start"]), guards.term_str(dflt["end"]), same))
            if dflt["start"] == ("const", 0) and same:
                r.ok()
            else:
                r.fail("%s | read-defaults=%s,%s" % (f.path, guards.term_str(dflt["start"]), guards.term_str(dflt["end"])),
                       "omitted bounds of a range read must default to 0 and "
                       "to the length of the value being sliced", where=c.loc)
    r.require_floor("range operations with default bounds", n, 3)
    return r


def _root_arg(f, op):
    """Parameter an operand is derived from (through guards/derefs)."""
    import locks
    rs = locks.backward_sources(f, op, set())
    args = sorted(x[1] for x in rs if x[0] == "arg")
    return tuple(args) if args else None


def rule_R11_2(ctx):
    prog = ctx.prog
    r = RuleResult("R11.2", "index and range reads use total lookups "
                   "(`get`) whose miss is the documented out-of-bounds error",
                   "a panicking index on a read path turns an out-of-range "
                   "read into a crash; a default value hides it")
    n = 0
    for variant in ("OutOfStringBounds", "OutOfListBounds", "RangeOutOfListBounds", "RangeOutOfStringBounds"):
        for f, bb, kd, aops, sp in err_sites(prog, variant):
            if f.module.startswith(__import__("anchors").binder_module(prog)):
                continue
            n += 1
            # nearest dominating Option switch from a `get`
            idom = f.idoms()
            cur = bb
            ok = False
            for _ in range(64):
                if cur == 0 or cur not in idom:
                    break
                cur = idom[cur]
                if f.term(cur)["k"] != "switch":
                    continue
                info = f.switch_info(cur)
                if not info or info["kind"] != "discr" or not info["enum"].startswith("std::option::Option<"):
                    continue
                cp = f.canon(info["place"])
                if cp[0][0] == "call":
                    c = f.call_at(cp[0][1])
                    if c is not None and (c.res or "").split("::")[-1] == "get":
                        none_t = info["otherwise"]
                        for nme, tgt in info["cases"]:
                            if nme == "None":
                                none_t = tgt
                        some_t = dict(info["cases"]).get("Some")
                        if f.dominates(none_t, bb) or (some_t is not None and not f.dominates(some_t, bb)):
                            ok = True
                break
            r.inst("%s: %s raised on the miss of a total lookup: %s" % (f.path, variant, ok))
            if ok:
                r.ok()
            elif variant.startswith("Range"):
                # explicit comparisons instead of `get`: the edges into the
                # error must include both documented rejections over the
                # values it reports: start > end and end > len
                fields = guards.field_terms(f, kd, aops)
                # (relations are pooled over every site of this error in the
                # function: the rejections may be written as separate returns)
                rels = []
                for f2, bb2, kd2, aops2, sp2 in err_sites(prog, variant):
                    if f2.path != f.path:
                        continue
                    flds2 = guards.field_terms(f2, kd2, aops2)
                    if flds2 != fields:
                        continue
                    rels += [x for x in guards.entry_relations(f2, bb2) if x[0] != "other"]
                has_order = any(guards.matches(x, ("Gt", "start", "end"), fields) for x in rels)
                has_upper = any(guards.matches(x, ("Gt", "end", ("len",)), fields) for x in rels)
                r.inst("%s: %s guarded by %s" % (f.path, variant, [guards.rel_str(*x) for x in rels]))
                if rels and has_order and has_upper:
                    r.ok()
                elif rels:
                    r.fail("%s | %s guards miss %s" % (f.path, variant,
                                                      "start>end" if not has_order else "end>len"),
                           "%s rejects a range read by explicit comparisons "
                           "(%s) that do not include %s: some documented "
                           "out-of-domain ranges reach the slicing code"
                           % (f.path, [guards.rel_str(*x) for x in rels],
                              "`start > end`" if not has_order else "`end > len`"), where=mir.span_loc(sp))
                else:
                    r.unproven.append("%s: %s not tied to a `get` miss" % (f.path, variant))
            else:
                r.unproven.append("%s: %s not tied to a `get` miss" % (f.path, variant))
            # range reads: every success exit of the function is behind the
            # hit edge of that lookup (no shortcut around the bounds test)
            if ok and variant.startswith("Range") and not f.is_closure:
                cp = f.canon(info["place"])
                some_t = dict(info["cases"]).get("Some")
                if some_t is not None:
                    exits = [(b2, sp2) for b2, i2, pl2, kd2, ao2, sp2 in f.aggregates("std::result::Result", "Ok")
                             if pl2[0] == 0]
                    bypass = [(b2, sp2) for b2, sp2 in exits if not f.dominates(some_t, b2)]
                    r.inst("%s: %d success exit(s), %d not behind the bounds lookup" % (f.path, len(exits), len(bypass)))
                    if exits and not bypass:
                        r.ok()
                    elif bypass:
                        r.fail("%s | success exit bypasses the bounds lookup" % f.path,
                               "%s can return a range read successfully without "
                               "the bounds lookup having succeeded: some "
                               "out-of-range bounds are accepted" % f.path,
                               where=mir.span_loc(bypass[0][1]))
    r.require_floor("out-of-bounds read errors", n, 4)
    # wherever a range lookup lives (possibly a shared helper): no success
    # exit of that function bypasses the lookup's hit edge
    m = 0
    for f in prog.hand_fns():
        if f.from_expansion or f.is_closure:
            continue
        for c in f.calls():
            if c.is_ptr or (c.res or "").split("::")[-1] != "get":
                continue
            if not any(t.startswith("std::ops::Range") for t in c.argtys[1:]):
                continue
            m += 1
            some_t = None
            if c.target is not None and f.term(c.target)["k"] == "switch":
                info = f.switch_info(c.target)
                some_t = dict(info["cases"]).get("Some") if info and info["kind"] == "discr" else None
            if some_t is None:
                # the Option is converted (ok_or / map / `?`) rather than
                # matched: success exits must at least come after the lookup
                some_t = c.bb
                r.unproven.append("%s: result of the range lookup is converted, not matched; "
                                  "only `no success exit before the lookup` is checked" % f.path)
            exits = []
            for b2, i2, pl2, kd2, ao2, sp2 in f.aggregates():
                if pl2[0] == 0 and not pl2[1] and kd2["variant"] in ("Ok", "Some") \
                        and kd2["adt"] in ("std::result::Result", "std::option::Option"):
                    exits.append((b2, sp2))
            bypass = [(b2, sp2) for b2, sp2 in exits if not f.dominates(some_t, b2)]
            r.inst("%s: range lookup; %d success exit(s), %d bypass it" % (f.path, len(exits), len(bypass)))
            if not bypass:
                r.ok()
            else:
                r.fail("%s | success exit bypasses the range lookup" % f.path,
                       "%s can answer a range read successfully without the "
                       "bounds lookup `get(start..end)` having succeeded: "
                       "some out-of-range bounds are accepted" % f.path,
                       where=mir.span_loc(bypass[0][1]))
    r.require_floor("range lookups", m, 1)
    return r


def rule_R11_6(ctx):
    import c05
    r = c05.rule_R05_3(ctx)
    r.rule = "R11.6"
    r.title = ("concatenation and range reads yield a sequence of their own: "
               "every list value is built around a newly allocated cell")
    r.necessary_for = ("if `s + t` or `s[a:b]` can be one of its operands, a later "
                       "`r[i] = v` changes positions of that operand too")
    for v in r.violations:
        v.rule = "R11.6"
        v.key = v.key.replace("R05.3", "R11.6", 1)
    r.violations = [v for v in r.violations if "List" in v.key]
    r4 = c05.rule_R05_4(ctx)
    for v in r4.violations:
        if "Object" in v.key:
            continue
        v.rule = "R11.6"
        v.key = v.key.replace("R05.4", "R11.6", 1)
        r.violations.append(v)
        r.obligations += 1
    r.obligations += r4.discharged
    r.discharged += r4.discharged
    r.instances.extend(r4.instances)
    r.unproven.extend(r4.unproven)
    return r


CHAR_STEP_RE = re.compile(r"<std::str::(Chars|CharIndices)(<[^>]*>)? as std::iter::(Iterator|DoubleEndedIterator)>::(next|next_back)$")


def _str_ctor(prog, path):
    import anchors
    g = prog.fns.get(path or "")
    return g is not None and not g.from_expansion and "Str" in anchors.ctor_variants(prog, path)


def _builds_str_value(prog, f):
    for c in f.calls():
        if not c.is_ptr and _str_ctor(prog, c.res):
            return c.loc
    for bb, i, pl, kd, ao, sp in f.aggregates("eval::value::Value"):
        if kd["variant"] == "Str" and i >= 0:
            return mir.span_loc(sp)
    return None


def rule_R11_7(ctx):
    """The items of a Seed string are its bytes (`Str` is a byte vector:
    `->len()`, indexing, ranges and `for` all count bytes).  A string value
    built once per *character* of another string is a decomposition in the
    other unit: its item count disagrees with `->len()` as soon as a
    multi-byte character occurs."""
    import anchors
    prog = ctx.prog
    r = RuleResult("R11.7", "a string is split into items by bytes: no string "
                   "value is built per `char` of a text (in a closure over "
                   "`char`s or a loop stepping `Chars`/`CharIndices`)",
                   "`xs[a:b] = s`, `for` and spread of a string then yield "
                   "fewer, wider items than `s->len()` positions: "
                   "`xs[a+k] == ys[k]` fails for multi-byte text")
    vm = anchors.value_module(prog)
    root = vm.split("::")[0]
    n = 0
    per_char = 0
    for f in prog.hand_fns():
        if f.from_expansion or f.generated:
            continue
        if not (f.module.startswith(root) or f.module.startswith("builtins")):
            continue
        n += 1
        where = None
        how = None
        ptys = [f.locals[k] for k in range(1, f.arg_count + 1) if k < len(f.locals)]
        if f.is_closure and any(t == "char" or re.match(r"\((usize, char|char, usize)\)$", t) for t in ptys[1:]):
            per_char += 1
            where = _builds_str_value(prog, f)
            how = "a closure called once per `char`"
        if where is None:
            loops = f.natural_loops()
            for h, body in loops.items():
                steps = [c for c in f.calls() if c.bb in body and not c.is_ptr and CHAR_STEP_RE.search(c.res_full or c.res or "")]
                if not steps:
                    continue
                per_char += 1
                for c in f.calls():
                    if c.bb in body and not c.is_ptr and _str_ctor(prog, c.res):
                        where = c.loc
                        how = "a loop that steps a `char` iterator"
                for bb, i, pl, kd, ao, sp in f.aggregates("eval::value::Value"):
                    if kd["variant"] == "Str" and i >= 0 and bb in body:
                        where = mir.span_loc(sp)
                        how = "a loop that steps a `char` iterator"
        if where:
            r.fail("%s | string value built per char" % f.path,
                   "%s builds a string value in %s: the pieces are "
                   "characters, but the positions of a Seed string are bytes"
                   % (f.path, how), where=where)
    r.inst("value-layer functions and closures looked at: %d; per-char closures/loops: %d" % (n, per_char))
    if not r.violations:
        r.ok()
    # positive control: the byte-wise constructor exists
    ctors = [g.path for g in prog.hand_fns() if _str_ctor(prog, g.path)]
    r.inst("string value constructors: %s" % ", ".join(sorted(ctors)))
    r.require_floor("string value constructors in the value module", len(ctors), 1)
    return r


def run(ctx):
    return [rule_R11_1(ctx), rule_R11_2(ctx), with_views(rule_R11_3, ctx), with_views(rule_R11_4, ctx),
            with_views(rule_R11_5, ctx), rule_R11_6(ctx), rule_R11_7(ctx)]


META = {
    "level": "other",
    "technique": "guard-relation extraction from MIR comparisons over the "
                 "operands each error reports, dominance of the pass edges "
                 "over element writes, default-bound provenance",
    "trusted_base": ["rustc MIR", "std slice::get / Vec indexing semantics"],
    "assumptions": ["element placement and the concatenation laws are "
                    "value-level results of std Vec operations and are not decided"],
    "explanation": "Decides the accepted index/bound domains: which "
                   "comparison (operator, operands, edge) guards each "
                   "documented rejection, that every write is behind all of "
                   "them, and where omitted bounds come from.",
}
