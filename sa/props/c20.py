"""C20 — names must be declared once per scope before use; `_` never binds."""
import anchors
import mir
import ops
from ops import ERR
from framework import RuleResult

RAWEXPR = "ast::RawExpr"
BMOD = ["eval::bind"]
SMOD = ["eval::scope"]
# scope-module entry points, filled in by run() from what the functions do to
# the scope map (see scope_api): [writers..] and [all]
SCOPE_WRITERS = []
SCOPE_FNS = []
BINDABLE = {"Var", "Index", "RangeIndex", "Prop", "Object", "List"}
NOT_BINDABLE = {"Null", "Bool", "Int", "Str", "BinaryOp", "Range", "Func", "Call"}
PARAM_EXTRA_REJECT = {"Index", "RangeIndex", "Prop"}


def underscore_tests(f):
    """Blocks ending in a bool switch on `name == "_"`: returns list of
    (switch block, equal target, not-equal target)."""
    out = []
    for c in f.calls():
        d = c.declared or ""
        if d not in ("std::cmp::PartialEq::eq", "std::cmp::PartialEq::ne"):
            continue
        has_us = False
        for a in c.args:
            v = mir.const_val(a)
            if v is None and mir.is_place_operand(a):
                cp = f.canon_op(a)
                if cp[0][0] == "const" and cp[0][1] in ("'_'", '"_"'):
                    v = "_"
            if v == "_":
                has_us = True
        if not has_us or c.target is None:
            continue
        if f.term(c.target)["k"] != "switch":
            continue
        info = f.switch_info(c.target)
        if not info or info["kind"] != "bool":
            continue
        t_true = info["otherwise"]
        t_false = None
        for v, tgt in info["cases"]:
            if v is True:
                t_true = tgt
            if v is False:
                t_false = tgt
        if t_false is None:
            t_false = info["otherwise"]
        eq_t, ne_t = (t_true, t_false) if d.endswith("::eq") else (t_false, t_true)
        out.append((c.target, eq_t, ne_t))
    return out


def rule_R20_1(ctx):
    prog = ctx.prog
    r = RuleResult("R20.1", "the `_` test precedes every scope access, "
                   "name-set update and lookup in the name binders",
                   "a `_` that reaches the scope table or the per-pattern "
                   "name set declares something, or makes `[_, _]` a duplicate")
    n = 0
    import inline
    covered = set()
    for f in prog.hand_fns():
        if not f.module.startswith(BMOD[0]) or f.is_closure or f.from_expansion:
            continue
        tests = underscore_tests(f)
        if not tests:
            continue
        # the scope accesses may sit in private helpers of the function that
        # tests for `_` (`declare_name`/`assign_name` under `bind_next_name`):
        # they are read in its view, and are thereby covered
        fv = inline.view(prog, f)
        if fv is not f and underscore_tests(fv):
            covered |= set(inline.private_helpers(prog, f))
            f = fv
            tests = underscore_tests(fv)
        n += 1
        sw, eq_t, ne_t = tests[0]
        # equal edge returns Ok without side effects
        eq_reach = f.reach_from(eq_t, avoid=[ne_t])
        side = []
        guarded = []
        for c in f.calls():
            if c.is_ptr:
                continue
            res = c.res or ""
            sensitive = res in SCOPE_FNS or "HashSet" in (c.res_full or "") and res.split("::")[-1] in ("insert", "contains") \
                or (prog.fns.get(res) is not None and prog.fns[res].module.startswith(BMOD[0])
                    and not prog.fns[res].is_closure) \
                or ("BTreeMap" in (c.res_full or "") and res.split("::")[-1] in ("get", "get_mut", "insert"))
            if not sensitive:
                continue
            if c.bb in eq_reach and not f.dominates(ne_t, c.bb):
                side.append(c)
            elif f.dominates(ne_t, c.bb):
                guarded.append(c)
            else:
                side.append(c)
        r.inst("%s: %d binding actions guarded by the `_` test, %d not"
               % (f.path, len(guarded), len(side)))
        if guarded and not side:
            r.ok()
        else:
            for c in side:
                r.fail("%s | unguarded=%s" % (f.path, (c.res or "").split("::")[-1]),
                       "%s calls %s on a path where the name may be `_`"
                       % (f.path, c.res), where=c.loc)
            if not guarded:
                r.fail("%s | nothing guarded" % f.path, "no binding action follows the `_` test")
    r.require_floor("name binders with a `_` test", n, 2)
    # every caller of declare/assign sits in a function with such a test
    for f in prog.hand_fns():
        if f.module.startswith(SMOD[0]):
            continue
        for c in f.calls():
            if not c.is_ptr and c.res in SCOPE_WRITERS:
                if underscore_tests(f.root_fn()) or f.root_fn().path in covered:
                    r.ok()
                else:
                    r.fail("%s | scope write without `_` test" % f.path,
                           "%s writes the scope table but never tests for `_`" % f.path, where=c.loc)
    return r


def _r20_2_entry(prog, r, f):
    """R20.2 for a declare written with the map's entry API."""
    import inline
    ents = [c for c in f.calls() if anchors.scope_map_path(prog) in (c.res_full or "") and (c.res or "").endswith("::entry")]
    fv = inline.view(prog, f)
    last = [c for c in fv.calls() if (c.res or "").split("::")[-1] in ("last", "last_mut")]
    r.inst("%s: entry API, %d entry call(s), %d `last` calls" % (f.path, len(ents), len(last)))
    silent = [c for c in f.calls() if "Entry" in (c.res_full or "") and (c.res or "").split("::")[-1] in
              ("or_insert", "or_insert_with", "or_insert_with_key", "or_default", "and_modify", "insert_entry")]
    ok = len(ents) == 1 and not silent
    if ok:
        e = ents[0]
        info = f.switch_info(e.target) if e.target is not None and f.term(e.target)["k"] == "switch" else None
        ok = bool(info) and info["kind"] == "discr" and "Entry<" in info["enum"]
        if ok:
            cases = dict(info["cases"])
            occ_t = cases.get("Occupied", info["otherwise"])
            vac_t = cases.get("Vacant", info["otherwise"])
            vins = [c for c in f.calls() if "VacantEntry" in (c.res_full or "") and (c.res or "").endswith("::insert")]
            occ_r = f.reach_from(occ_t, avoid=[vac_t])
            errs = [1 for bb, ii, pl, kd, ao, sp in f.aggregates("std::result::Result", "Err") if bb in occ_r]
            writes = [c for c in f.calls() if c.bb in occ_r and "OccupiedEntry" in (c.res_full or "")
                      and (c.res or "").split("::")[-1] in ("insert", "get_mut", "into_mut", "remove", "remove_entry", "replace_entry")]
            ok = occ_t != vac_t and bool(vins) and all(f.dominates(vac_t, c.bb) for c in vins) and bool(errs) and not writes
    if ok:
        r.ok()
    else:
        r.fail("%s | insert not guarded by absent-lookup" % f.path,
               "the entry-API declare must insert only into a vacant entry "
               "and answer an occupied one with an error, without touching it",
               where=ents[0].loc if ents else None)
    if last:
        r.ok()
    else:
        r.fail("%s | not-innermost-scope" % f.path,
               "declare does not address the last (innermost) scope")
    return r


def rule_R20_2(ctx):
    prog = ctx.prog
    r = RuleResult("R20.2", "declare refuses a name already in the innermost "
                   "scope and reports where it was declared",
                   "an overwriting declare silently redefines a name")
    f = None
    if f is None:
        cands = [g for g in prog.hand_fns() if g.module.startswith(SMOD[0])
                 and any("HashMap" in (c.res_full or "") and (c.res or "").endswith("::insert") for c in g.calls())]
        f = cands[0] if cands else None
    if f is None:
        # entry API: `match map.entry(name) { Occupied(e) => Err(..), Vacant(e) => e.insert(..) }`
        ecands = [g for g in prog.hand_fns() if g.module.startswith(SMOD[0]) and not g.is_closure
                  and any(anchors.scope_map_path(prog) in (c.res_full or "") and (c.res or "").endswith("::entry")
                          for c in g.calls())]
        if ecands:
            return _r20_2_entry(prog, r, ecands[0])
    if f is None:
        r.anchor_missing("the function inserting into a scope map")
        return r
    ins = [c for c in f.calls() if "HashMap" in (c.res_full or "") and (c.res or "").endswith("::insert")]
    gets = [c for c in f.calls() if "HashMap" in (c.res_full or "") and (c.res or "").split("::")[-1] in ("get", "contains_key", "entry")]
    import inline
    fv = inline.view(prog, f)       # `last()` may sit in a private locking helper
    last = [c for c in fv.calls() if (c.res or "").split("::")[-1] in ("last", "last_mut")]
    r.inst("%s: %d insert, %d lookup, %d `last` calls" % (f.path, len(ins), len(gets), len(last)))
    if not ins or not gets:
        r.fail("%s | insert-without-lookup" % f.path,
               "the scope insert is not preceded by a lookup of the name")
        return r
    for i in ins:
        ok = False
        for gcall in gets:
            if gcall.target is None or f.term(gcall.target)["k"] != "switch":
                continue
            info = f.switch_info(gcall.target)
            if not info or info["kind"] != "discr":
                continue
            none_t = info["otherwise"]
            some_t = None
            for nme, tgt in info["cases"]:
                if nme == "None":
                    none_t = tgt
                if nme == "Some":
                    some_t = tgt
            if some_t is None:
                some_t = info["otherwise"]
            if f.dominates(none_t, i.bb) and i.bb not in f.reach_from(some_t, avoid=[none_t]):
                # Some edge returns Err
                errs = [1 for bb, ii, pl, kd, ao, sp in f.aggregates("std::result::Result", "Err")
                        if bb in f.reach_from(some_t, avoid=[none_t])]
                same_key = f.canon_op(gcall.args[1]) if len(gcall.args) > 1 else None
                if errs:
                    ok = True
        if ok:
            r.ok()
        else:
            r.fail("%s | insert not guarded by absent-lookup" % f.path,
                   "the insert into the scope map is not dominated by the "
                   "`name absent` outcome of a lookup whose `present` "
                   "outcome returns an error", where=i.loc)
    import anchors as _an
    linked = bool(_an.scope_pushers(prog)) and not _an.pusher_appends(prog)
    n_locks = sum(1 for c in fv.calls() if mir.mutex_locked_type(c))
    if last:
        r.ok()
    elif linked and not fv.natural_loops() and n_locks == 1:
        # linked chain: the handle itself is the innermost node; declare locks
        # exactly that one cell and walks nowhere
        r.inst("%s: linked chain, locks the head node only" % f.path)
        r.ok()
    else:
        r.fail("%s | not-innermost-scope" % f.path,
               "declare does not address the last (innermost) scope")
    return r


def rawexpr_fns(prog):
    out = []
    for f in prog.hand_fns():
        if f.is_closure or f.from_expansion:
            continue
        sw = ops.arg_rooted_switches(f)
        ps = [cp for cp, e in sw.items() if e == RAWEXPR]
        if ps:
            out.append((f, ps[0]))
    return out


def rule_R20_3(ctx):
    prog = ctx.prog
    r = RuleResult("R20.3", "bindable / non-bindable targets: the binder and "
                   "the parameter validator reject exactly the documented "
                   "expression kinds, with no silent fallback",
                   "a literal or call silently accepted as a target binds nothing")
    variants = prog.enum_variant_names(RAWEXPR)
    found_binder = found_validator = 0
    # binder: switch on a RawExpr parameter
    for f, path in rawexpr_fns(prog):
        if not f.module.startswith(BMOD[0]):
            continue
        vf = mir.VariantFlow(f, [(path, RAWEXPR)])
        rej = set()
        for bb, i, pl, kd, ao, sp in f.aggregates(ERR, "InvalidBindTarget"):
            rej |= {t[0] for t in vf.at(bb)}
        for g in prog.closures_of(f.path):
            if (ERR, "InvalidBindTarget") in ops.constructs(prog, g):
                for c in f.calls():
                    if not c.is_ptr and c.res == g.path:
                        rej |= {t[0] for t in vf.at(c.bb)}
        if not rej:
            continue
        found_binder += 1
        r.inst("%s rejects %s" % (f.path, sorted(rej)))
        for v in variants:
            want = v in NOT_BINDABLE
            if (v in rej) == want:
                r.ok()
            else:
                r.fail("%s | target=%s rejected=%s" % (f.path, v, v in rej),
                       "binding target kind %s: rejected=%s, documented=%s"
                       % (v, v in rej, want), where=mir.span_loc(f.span))
    # validator: switch on a RawExpr that is not rooted at a parameter (queue item)
    for f in prog.hand_fns():
        if f.is_closure or f.from_expansion or f.module.startswith(BMOD[0]) \
                or f.module.startswith(SMOD[0]) or f.generated:
            continue      # (the validator lives with the evaluator, not the binder)
        sites = [(bb, kd) for bb, i, pl, kd, ao, sp in f.aggregates(ERR, "InvalidBindTarget")]
        # (the error may also be built by a small free helper of the validator:
        # `new_invalid_param_err(loc, descr)`)
        hsites = []
        for c in f.calls():
            h = prog.fns.get(c.res) if not c.is_ptr else None
            if h is not None and h.full and not h.is_closure and not h.generated and not h.from_expansion \
                    and h.impl_trait is None and h.path != f.path and len(h.blocks) <= 20 \
                    and any(True for _ in h.aggregates(ERR, "InvalidBindTarget")):
                hsites.append(c)
        if not sites and not hsites and not any((ERR, "InvalidBindTarget") in ops.constructs(prog, g)
                                                for g in prog.closures_of(f.path)):
            continue
        sw = None
        for bb in range(len(f.blocks)):
            if f.is_cleanup(bb) or f.term(bb)["k"] != "switch":
                continue
            info = f.switch_info(bb)
            if info and info["kind"] == "discr" and info["enum"] == RAWEXPR and len(info["cases"]) >= 8:
                sw = (bb, info)
        if sw is None:
            continue
        found_validator += 1
        cp = f.canon(sw[1]["place"])
        vf = mir.VariantFlow(f, [(cp, RAWEXPR)])
        rej = set()
        for bb, kd in sites:
            rej |= {t[0] for t in vf.at(bb)}
        for c in hsites:
            st = vf.at(c.bb)
            if len(st) < len(variants):
                rej |= {t[0] for t in st}
        for g in prog.closures_of(f.path):
            if (ERR, "InvalidBindTarget") in ops.constructs(prog, g):
                for c in f.calls():
                    if not c.is_ptr and c.res == g.path:
                        st = vf.at(c.bb)
                        if len(st) < len(variants):
                            rej |= {t[0] for t in st}
        r.inst("%s (parameter validator) rejects %s" % (f.path, sorted(rej)))
        for v in variants:
            want = v in NOT_BINDABLE or v in PARAM_EXTRA_REJECT
            if (v in rej) == want:
                r.ok()
            else:
                r.fail("%s | param=%s rejected=%s" % (f.path, v, v in rej),
                       "parameter pattern kind %s: rejected=%s, documented=%s"
                       % (v, v in rej, want), where=mir.span_loc(f.span))
    r.require_floor("binder with an InvalidBindTarget table", found_binder, 1)
    r.require_floor("parameter validator with an InvalidBindTarget table", found_validator, 1)
    return r




UPDATERS = set()


def scope_map_ops(prog):
    """{scope-module function: names of the scope-map methods it reaches},
    through its closures and the scope module's own helpers (`get`/`assign`
    that share one private `with_binding` walk are still lookups)."""
    import anchors
    direct, callees = {}, {}
    for f in prog.full_fns(generated=False):
        if not f.module.startswith(SMOD[0]):
            continue
        owner = f.root_fn().path if f.is_closure else f.path
        for c in f.calls():
            if c.is_ptr:
                continue
            if anchors.scope_map_path(prog) in (c.res_full or ""):
                direct.setdefault(owner, set()).add((c.res or "").split("::")[-1])
            g = prog.fns.get(c.res or "")
            if g is not None and g.full and g.module.startswith(SMOD[0]) and not g.generated:
                callees.setdefault(owner, set()).add(g.root_fn().path if g.is_closure else g.path)
    out = {p: set(v) for p, v in direct.items()}
    changed = True
    while changed:
        changed = False
        for p, cs in callees.items():
            cur = out.setdefault(p, set())
            for q in cs:
                extra = out.get(q, set()) - cur
                if extra:
                    cur |= extra
                    changed = True
    return out


def scope_api(prog):
    """Classify the scope module's functions by what they do to the scope
    map: (inserters, lookups).  A lookup reads or updates existing bindings
    and reports a miss as None/false; it is an *updater* when it can reach
    `get_mut` and is handed a value to store."""
    ins, look = set(), {}
    ops_ = scope_map_ops(prog)
    for f in prog.full_fns(generated=False):
        if not f.module.startswith(SMOD[0]) or f.is_closure:
            continue
        names = ops_.get(f.path, set())
        if names & {"insert", "entry", "extend"}:
            ins.add(f.path)
        elif names & {"get", "get_mut", "contains_key"}:
            ptys = f.locals[1:f.arg_count + 1]
            if "get_mut" in names and any(t == "eval::value::SourcedValue" for t in ptys):
                UPDATERS.add(f.path)
            rt = f.locals[0] if f.locals else ""
            if rt.startswith("std::option::Option<"):
                look[f.path] = "option"
            elif rt == "bool":
                look[f.path] = "bool"
            elif rt.startswith("std::result::Result<") and ERR in rt \
                    and (ERR, "Undefined") in ops.constructs_deep(prog, f, depth=1):
                # the lookup reports the miss itself (`get(name) -> Result<SourcedValue>`)
                look[f.path] = "result"
    return ins, look


def rule_R20_4(ctx):
    prog = ctx.prog
    inserters, lookups = scope_api(prog)
    r = RuleResult("R20.4", "a failed lookup or assignment of a name is an "
                   "`Undefined` error",
                   "a silent fallback (null, or declaring on assignment) "
                   "hides use-before-declaration")
    n = 0
    for f in prog.hand_fns():
        if f.module.startswith(SMOD[0]) or f.from_expansion:
            continue
        for c in f.calls():
            if c.is_ptr or c.res not in lookups:
                continue
            n += 1
            if lookups[c.res] == "result":
                # the miss is an Undefined error built by the lookup itself;
                # the caller can only propagate or wrap it ...
                g_ = prog.fns[c.res]
                silent = [u for u in ops.forward_users(f, c) if (u.res or "").split("::")[-1] in
                          ("unwrap_or", "unwrap_or_else", "unwrap_or_default", "ok", "or", "is_ok", "is_err")
                          or ((u.res or "").split("::")[-1] == "or_else"     # `.or_else(|e| Err(wrap(e)))` only re-wraps
                              and ("std::result::Result", "Ok") in ops.block_constructs(prog, f, u.bb))]
                r.inst("%s: miss of %s is reported by the lookup itself" % (f.path, c.res.split("::")[-1]))
                if silent:
                    r.fail("%s | miss-edge of %s undefined=False declares=False" % (f.path, c.res.split("::")[-1]),
                           "%s discards the Undefined error of %s (%s)" % (f.path, c.res, silent[0].res), where=silent[0].loc)
                else:
                    r.ok()
                continue
            if c.target is None or f.term(c.target)["k"] != "switch":
                # combinator form: `scopes.get(name).ok_or_else(|| undefined(..))`
                us = ops.forward_users(f, c)
                conv = [u for u in us if (u.res or "").split("::")[-1] in ("ok_or_else", "ok_or")]
                dflt = [u for u in us if (u.res or "").split("::")[-1] in
                        ("unwrap_or", "unwrap_or_else", "unwrap_or_default", "map_or", "map_or_else", "or", "or_else")]
                if dflt:
                    r.inst("%s: miss of %s replaced by a default (%s)" % (f.path, c.res.split("::")[-1], dflt[0].res.split("::")[-1]))
                    r.fail("%s | miss-edge of %s undefined=False declares=False" % (f.path, c.res.split("::")[-1]),
                           "when %s finds no binding, %s substitutes a default "
                           "value (%s) instead of raising Undefined" % (c.res, f.path, dflt[0].res), where=dflt[0].loc)
                elif len(conv) == 1 and (ERR, "Undefined") in ops.block_constructs(prog, f, conv[0].bb):
                    r.inst("%s: miss of %s -> Undefined (via %s)" % (f.path, c.res.split("::")[-1], conv[0].res.split("::")[-1]))
                    r.ok()
                else:
                    r.unproven.append("%s: result of %s not tested directly" % (f.path, c.res))
                continue
            info = f.switch_info(c.target)
            if not info or (lookups[c.res] == "option") != (info["kind"] == "discr"):
                r.unproven.append("%s: result of %s not tested directly" % (f.path, c.res))
                continue
            if lookups[c.res] == "option":
                miss = info["otherwise"]
                for nme, tgt in info["cases"]:
                    if nme == "None":
                        miss = tgt
                hit = dict(info["cases"]).get("Some")
            else:
                miss = info["otherwise"]
                for v, tgt in info["cases"]:
                    if v is False:
                        miss = tgt
                hit = dict((str(v), t) for v, t in info["cases"]).get("True")
            avoid = [hit] if hit is not None else []
            reach = f.reach_from(miss, avoid=avoid)
            und = [1 for bb, i, pl, kd, ao, sp in f.aggregates(ERR, "Undefined") if bb in reach] \
                or [1 for bb in reach if (ERR, "Undefined") in ops.block_constructs(prog, f, bb)]
            decl = [d for d in f.calls() if d.bb in reach and d.res in inserters]
            r.inst("%s: miss edge of %s -> Undefined=%s" % (f.path, c.res.split("::")[-1], bool(und)))
            if und and not decl:
                r.ok()
            else:
                r.fail("%s | miss-edge of %s undefined=%s declares=%s"
                       % (f.path, c.res.split("::")[-1], bool(und), bool(decl)),
                       "when %s finds no binding, %s must raise Undefined "
                       "(and must not declare the name)" % (c.res, f.path), where=c.loc)
    r.require_floor("scope lookups/assignments outside the scope module", n, 2)
    return r


def rule_R20_5(ctx):
    prog = ctx.prog
    r = RuleResult("R20.5", "all declarations go through one function; the "
                   "scope map is inserted into only by ScopeStack::declare",
                   "a second writer can bypass the duplicate check and the `_` test")
    inserters, lookups = scope_api(prog)
    r.inst("scope-module functions that insert names: %s" % sorted(inserters))
    if len(inserters) == 1:
        r.ok()
    elif not inserters:
        r.anchor_missing("the scope module's declaring function (inserts into the scope map)")
    else:
        r.fail("inserters=%s" % ",".join(sorted(inserters)),
               "%d functions of the scope module insert names into a scope" % len(inserters))
    decl_callers = set()
    for f in prog.full_fns(generated=False):
        if f.module.startswith(SMOD[0]):
            continue
        for c in f.calls():
            if not c.is_ptr and c.res in inserters:
                decl_callers.add(f.root_fn().path)
    r.inst("the declaring function is called from %s" % sorted(decl_callers))
    if len(decl_callers) == 1:
        r.ok()
    else:
        r.fail("declare-callers=%s" % ",".join(sorted(decl_callers)),
               "declarations are performed from %d functions" % len(decl_callers))
    ins = set()
    for f in prog.full_fns(generated=False):
        for c in f.calls():
            full = c.res_full or ""
            if anchors.scope_map_path(prog) in full \
                    and (c.res or "").split("::")[-1] in ("insert", "entry", "extend", "get_mut", "remove"):
                ins.add((f.path, (c.res or "").split("::")[-1]))
    r.inst("scope map writers: %s" % sorted(ins))
    bad = [x for x in ins if not (prog.fns[x[0]].root_fn().module.startswith(SMOD[0]))
           or (x[1] in ("insert", "entry", "extend") and prog.fns[x[0]].root_fn().path not in inserters)]
    if not bad and ins:
        r.ok()
    else:
        r.fail("scope-map-writers=%s" % ",".join(sorted(a for a, b in bad)),
               "the scope map is written outside ScopeStack::declare/assign: %s" % sorted(bad))
    return r


def rule_R20_6(ctx):
    import c04
    r = c04.rule_R04_4(ctx)
    r.rule = "R20.6"
    r.necessary_for = ("a block that runs in its enclosing scope rejects a legal "
                       "inner redeclaration and leaks its names")
    for v in r.violations:
        v.rule = "R20.6"
        v.key = v.key.replace("R04.4", "R20.6", 1)
    return r


def rule_R20_7(ctx):
    import c04
    r = c04.rule_R04_5(ctx, "R20.7")
    r.necessary_for = ("a lookup that finds an outer binding first reads the "
                       "wrong variable after a legal inner redeclaration")
    return r


def run(ctx):
    import anchors
    BMOD[0] = anchors.binder_module(ctx.prog)
    SMOD[0] = anchors.scope_module(ctx.prog)
    UPDATERS.clear()
    ins_, look_ = scope_api(ctx.prog)
    SCOPE_WRITERS[:] = sorted(ins_) + sorted(UPDATERS)
    SCOPE_FNS[:] = sorted(ins_) + sorted(look_)
    return [rule_R20_1(ctx), rule_R20_2(ctx), rule_R20_3(ctx), rule_R20_4(ctx), rule_R20_5(ctx),
            rule_R20_6(ctx), rule_R20_7(ctx)]


META = {
    "level": "other",
    "technique": "dominance of the `_` test over scope accesses, decision "
                 "tables on RawExpr (variant dataflow), miss-edge analysis of "
                 "scope lookups, who-may-call census",
    "trusted_base": ["rustc MIR", "HashMap get/insert semantics"],
    "assumptions": ["behaviour over interleavings of declarations with block "
                    "and call boundaries is not decided"],
    "explanation": "Decides the structural conditions of C20: `_` is tested "
                   "before anything is bound or recorded, declare refuses "
                   "duplicates in the innermost scope, exactly the documented "
                   "expression kinds are bindable, absence is an Undefined "
                   "error, and there is a single declaration path.",
}
