"""C08 — expressions group by fixed operator tiers, left to right; parens
override.  Decided on LALRPOP's normalised grammar (A8) plus the semantic
actions' MIR facts."""
import mir
import prov
from framework import RuleResult

MOD_MAIN = "__parse__Prog"
MOD_SLOT = "__parse__Expr"

BIN_TIERS = [
    {".."},
    {"&&", "||"},
    {"+", "-"},
    {"*", "/", "%", "==", "!=", "<", "<=", ">", ">=", "===", "!=="},
]
ALL_BINOPS = set().union(*BIN_TIERS)
POSTFIX_HEADS = {"(", "[", ".", "->"}
OP_TO_AST = {"+": "Sum", "-": "Sub", "*": "Mul", "/": "Div", "%": "Mod",
             "&&": "And", "||": "Or", "==": "Eq", "!=": "Ne", ">": "Gt",
             ">=": "Gte", "<": "Lt", "<=": "Lte", "===": "RefEq", "!==": "RefNe"}
PUNCT_EXPECT = None  # taken from the extern block


def rule_R08_1(ctx):
    g = ctx.grammar
    r = RuleResult("R08.1", "the expression grammar is stratified into the "
                   "documented tiers, each infix tier left-recursive",
                   "an operator in another tier, a right-recursive tier or an "
                   "extra production changes how some expression groups")
    if MOD_MAIN not in g.mods or MOD_SLOT not in g.mods:
        r.anchor_missing("sub-parsers %s / %s in the generated parser" % (MOD_MAIN, MOD_SLOT))
        return r
    up = g.user_productions(MOD_MAIN)
    r.require_floor("grammar productions (normal form)", len(up), 100)
    # both entry points parse the same grammar
    a = set((p[0], tuple(p[1]), p[2]) for p in up)
    b = set((p[0], tuple(p[1]), p[2]) for p in g.user_productions(MOD_SLOT))
    r.inst("%d productions in %s; identical in %s: %s" % (len(up), MOD_MAIN, MOD_SLOT, a == b))
    if a == b:
        r.ok()
    else:
        r.fail("grammar | slot-parser-differs",
               "the Expr sub-parser used for interpolation slots has "
               "different productions from the program parser")
    for m in (MOD_MAIN, MOD_SLOT):
        np_, nr = len(g.productions(m)), len(g.reduce_fns[m])
        if nr in (np_, np_ - 1):
            r.ok()
        else:
            r.fail("grammar | %s comments=%d reduce-fns=%d" % (m, np_, nr),
                   "the normal-form comments do not match the reduce "
                   "functions of %s" % m)
    st = g.stratify(MOD_MAIN)
    tiers = st["tiers"]
    for p in st["problems"]:
        r.fail("grammar | %s" % p, p)
    r.inst("tiers: %s" % [t["name"] for t in tiers])
    if len(tiers) != 6:
        r.fail("grammar | tiers=%d" % len(tiers),
               "expected 4 infix tiers, a postfix tier and an atom tier "
               "reachable from Expr; found %s" % [t["name"] for t in tiers])
        return r
    seen_ops = {}
    for k, exp in enumerate(BIN_TIERS):
        t = tiers[k]
        ops_here = set()
        for x in t["infix"]:
            ops_here |= {o for o, _ in x["ops"]}
            left_ok = x["left"] in t["aliases"] and (k == 0 or x["left"] == t["name"])
            r.inst("tier %d %s: %s %s %s" % (k + 1, t["name"], x["left"], sorted(o for o, _ in x["ops"]), x["right"]))
            if left_ok:
                r.ok()
            else:
                r.fail("grammar | tier=%d not-left-recursive" % (k + 1),
                       "tier %d infix production is not of the form T OP T' "
                       "with T the tier itself" % (k + 1))
        for o in ops_here:
            seen_ops.setdefault(o, []).append(k + 1)
        if len(t["infix"]) == 1 and not t["postfix"] and not t["atoms"] and not t["other"]:
            r.ok()
        else:
            r.fail("grammar | tier=%d shape infix=%d postfix=%d atoms=%d other=%d"
                   % (k + 1, len(t["infix"]), len(t["postfix"]), len(t["atoms"]), len(t["other"])),
                   "tier %d (%s) must consist of exactly one left-recursive "
                   "infix production and a unit production; unrecognised: %s"
                   % (k + 1, t["name"], [x["syms"] for x in t["other"]]))
        if ops_here == exp:
            r.ok()
        else:
            r.fail("grammar | tier=%d ops extra=%s missing=%s"
                   % (k + 1, ",".join(sorted(ops_here - exp)), ",".join(sorted(exp - ops_here))),
                   "tier %d has operators %s; documented %s"
                   % (k + 1, sorted(ops_here), sorted(exp)))
    for o, ks in sorted(seen_ops.items()):
        if len(ks) == 1:
            r.ok()
        else:
            r.fail("grammar | op=%s in-tiers=%s" % (o, ks),
                   "operator %s appears in more than one tier" % o)
    # postfix tier
    t5 = tiers[4]
    if t5["infix"] or t5["atoms"] or t5["other"]:
        r.fail("grammar | postfix-tier shape",
               "the postfix tier has non-postfix productions: %s"
               % [x["syms"] for x in t5["other"] + t5["atoms"]])
    else:
        r.ok()
    heads = set()
    for x in t5["postfix"]:
        heads.add(g.term(x["syms"][1]))
        tops = {g.term(s) for s in x["syms"] if g.is_terminal(s)}
        if tops & ALL_BINOPS:
            r.fail("grammar | postfix production mentions binary operator %s" % sorted(tops & ALL_BINOPS),
                   "postfix production %s re-introduces a binary operator" % x["syms"])
        else:
            r.ok()
    r.inst("postfix heads: %s (%d productions)" % (sorted(heads), len(t5["postfix"])))
    if heads == POSTFIX_HEADS:
        r.ok()
    else:
        r.fail("grammar | postfix-heads=%s" % ",".join(sorted(heads)),
               "postfix operators must be call, index/range-index, .name and ->name")
    # atoms
    t6 = tiers[5]
    if t6["infix"] or t6["postfix"] or t6["other"]:
        r.fail("grammar | atom-tier shape",
               "the atom tier has non-atom productions: %s" % [x["syms"] for x in t6["other"]])
    else:
        r.ok()
    paren = [x for x in t6["atoms"] if len(x["syms"]) == 3 and x["syms"][0] == '"("'
             and x["syms"][2] == '")"' and x["syms"][1] in tiers[0]["aliases"]]
    neg = [x for x in t6["atoms"] if x["syms"][0] == '"-"' and len(x["syms"]) == 2
           and (st["token_classes"].get(x["syms"][1]) == "int_literal" or x["syms"][1] == '"int_literal"')]
    r.inst("atoms: %d; paren production: %s; negated literal: %s"
           % (len(t6["atoms"]), bool(paren), bool(neg)))
    if len(paren) == 1:
        r.ok()
    else:
        r.fail("grammar | paren-production=%d" % len(paren),
               "expected exactly one `( loosest-tier )` atom")
    if len(neg) == 1:
        r.ok()
    else:
        r.fail("grammar | negated-literal-production=%d" % len(neg),
               "expected exactly one `- int_literal` atom")
    for x in t6["atoms"]:
        tops = {g.term(s) for s in x["syms"] if g.is_terminal(s)}
        bad = tops & ALL_BINOPS
        if x in neg:
            bad -= {"-"}
        if bad:
            r.fail("grammar | atom mentions binary operator %s" % sorted(bad),
                   "atom production %s contains a binary operator terminal" % x["syms"])
        else:
            r.ok()
    return r


def _action_fn(prog, n):
    return prog.fns.get("parser::__action%d" % n)


def _agg_of(prog, pv, n):
    f = _action_fn(prog, n)
    if f is None:
        return None, None
    o = pv.origins(f, [0, []], ())
    return f, o


def rule_R08_2(ctx):
    prog = ctx.prog
    g = ctx.grammar
    r = RuleResult("R08.2", "semantic actions build the documented AST for "
                   "every operator production (lhs first, rhs last; parens "
                   "add no node)",
                   "a swapped operand or wrong operator constant changes the "
                   "parsed program although the grammar shape is right")
    pv = prov.Prov(prog, lalrpop_bridge=False, field_based=False)
    st = g.stratify(MOD_MAIN)
    tiers = st["tiers"]
    if len(tiers) != 6:
        r.anchor_missing("six expression tiers")
        return r

    def param_origin(o, fpath):
        return sorted((x[2], x[3]) for x in o if x[0] == "param" and x[1] == fpath)

    F1 = ("f", 1, "", "")
    # operator alternatives
    for k in (1, 2, 3):
        for x in tiers[k]["infix"]:
            for sym, act in x["ops"]:
                f, o = _agg_of(prog, pv, act)
                got = sorted(i[5] for i in (o or []) if i[0] == "agg" and i[4] == "ast::BinaryOp")
                r.inst("%s -> BinaryOp::%s" % (sym, got))
                if got == [OP_TO_AST[sym]] and len(o) == 1:
                    r.ok()
                else:
                    r.fail("action | terminal=%s builds=%s" % (sym, ",".join(got)),
                           "the action of operator %s builds %s instead of "
                           "BinaryOp::%s" % (sym, got, OP_TO_AST[sym]))
            # infix action
            act = x["action"]
            f, o = _agg_of(prog, pv, act)
            aggs = [i for i in (o or []) if i[0] == "agg"]
            if not (len(aggs) == 1 and aggs[0][4] == "ast::RawExpr" and aggs[0][5] == "BinaryOp"):
                r.fail("action | tier=%d infix builds=%s" % (k + 1, [(i[4], i[5]) for i in aggs]),
                       "the infix action of tier %d does not build RawExpr::BinaryOp" % (k + 1))
                continue
            gfn = prog.fns[aggs[0][1]]
            stt = gfn.stmts(aggs[0][2])[aggs[0][3]]
            fields = stt[2][1]["fields"]
            opsx = stt[2][2]
            want = {"op": (2, ()), "lhs": (1, ("*", ("f", 0, "", ""))), "rhs": (3, ("*", ("f", 0, "", "")))}
            for fname, (pn, pi) in want.items():
                # asked from the action's own result, so that a constructor
                # helper shared by several actions is entered with this
                # action as calling context
                fpi = (("d", "BinaryOp"), ("f", fields.index(fname), "ast::RawExpr", "BinaryOp")) + tuple(pi)
                oo = pv.origins(f, [0, []], fpi)
                po = param_origin(oo, f.path)
                good = len(oo) == 1 and po and po[0][0] == pn and po[0][1][:1] == (F1,)
                r.inst("tier %d action %d: %s <- %s" % (k + 1, act, fname, po))
                if good:
                    r.ok()
                else:
                    r.fail("action | tier=%d field=%s from=%s" % (k + 1, fname, po),
                           "RawExpr::BinaryOp.%s of tier %d must come from "
                           "grammar symbol %d" % (fname, k + 1, pn))
    # range
    for x in tiers[0]["infix"]:
        act = x["action"]
        f, o = _agg_of(prog, pv, act)
        aggs = [i for i in (o or []) if i[0] == "agg"]
        if not (len(aggs) == 1 and aggs[0][5] == "Range"):
            r.fail("action | range builds=%s" % [(i[4], i[5]) for i in aggs],
                   "the `..` action does not build RawExpr::Range")
            continue
        gfn = prog.fns[aggs[0][1]]
        stt = gfn.stmts(aggs[0][2])[aggs[0][3]]
        fields = stt[2][1]["fields"]
        opsx = stt[2][2]
        for fname, pn, pi in (("start", 1, ("*",)), ("end", 3, ("*", ("f", 0, "", "")))):
            fpi = (("d", "Range"), ("f", fields.index(fname), "ast::RawExpr", "Range")) + tuple(pi)
            oo = pv.origins(f, [0, []], fpi)
            po = param_origin(oo, f.path)
            r.inst("range action %d: %s <- %s" % (act, fname, po))
            if len(oo) == 1 and po and po[0][0] == pn:
                r.ok()
            else:
                r.fail("action | range field=%s from=%s" % (fname, po),
                       "RawExpr::Range.%s must come from grammar symbol %d" % (fname, pn))
    # parens add no node; unit productions are identities
    t6 = tiers[5]
    for x in t6["atoms"]:
        if len(x["syms"]) == 3 and x["syms"][0] == '"("' and x["syms"][2] == '")"':
            f, o = _agg_of(prog, pv, x["action"])
            po = param_origin(o or [], f.path if f else "")
            r.inst("paren action %d returns %s" % (x["action"], po))
            if o and len(o) == 1 and po and po[0][0] == 2 and po[0][1] == (F1,):
                r.ok()
            else:
                r.fail("action | paren returns=%s" % sorted(i[0] for i in (o or [])),
                       "the parenthesis action must return its inner "
                       "expression unchanged (no AST node)")
        if x["syms"][0] == '"-"' and len(x["syms"]) == 2:
            f, o = _agg_of(prog, pv, x["action"])
            aggs = [i for i in (o or []) if i[0] == "agg"]
            good = False
            if len(aggs) == 1 and aggs[0][5] == "Int":
                gfn = prog.fns[aggs[0][1]]
                stt = gfn.stmts(aggs[0][2])[aggs[0][3]]
                oo = pv.origins(gfn, stt[2][2][0], ())
                neg = [i for i in oo if i[0] == "op" and i[4] == "Neg"]
                po = param_origin(oo, f.path)
                good = bool(neg) and po and po[0][0] == 2
            r.inst("negated literal action %d ok=%s" % (x["action"], good))
            if good:
                r.ok()
            else:
                r.fail("action | negated-literal",
                       "`- int_literal` must build Int{n: -n} from the literal")
    units = []
    for t in tiers:
        units.extend(t.get("alias_actions", []))
        if t.get("unit_action") is not None:
            units.append(t["unit_action"])
    for act in sorted(set(units)):
        f, o = _agg_of(prog, pv, act)
        if f is None:
            continue
        po = param_origin(o or [], f.path)
        aggs = [i for i in (o or []) if i[0] == "agg"]
        # `Expr = ExprPrecedence1` pairs the expression with its location
        if aggs and all(i[4] == "tuple" for i in aggs):
            gfn = prog.fns[aggs[0][1]]
            stt = gfn.stmts(aggs[0][2])[aggs[0][3]]
            oo = pv.origins(gfn, stt[2][2][0], ())
            po = param_origin(oo, f.path)
            good = len(oo) == 1 and bool(po)
        elif aggs and all(i[4] in prog.adts and not i[4].startswith(("std::", "core::", "alloc::")) for i in aggs) \
                and len(set(i[4] for i in aggs)) == 1:
            # `Expr` as a struct `Expr{raw, loc}`: the expression component of
            # the result must be the operand, unchanged
            adt_ = prog.adts[aggs[0][4]]
            ks = [k_ for k_, fd in enumerate(adt_["variants"][0]["fields"]) if fd["ty"] == "ast::RawExpr"] \
                if len(adt_.get("variants", [])) == 1 else []
            good = False
            if len(ks) == 1:
                oo = pv.origins(f, [0, []], (("f", ks[0], aggs[0][4], adt_["variants"][0]["name"]),))
                po = param_origin(oo, f.path)
                good = len(oo) == 1 and bool(po)
        else:
            good = o and len(o) == 1 and bool(po) and po[0][1] == (F1,)
        r.inst("unit action %d identity=%s" % (act, good))
        if good:
            r.ok()
        else:
            r.fail("action | unit=%d not-identity" % act,
                   "the unit production with action %d must pass its operand "
                   "through unchanged" % act)
    return r


def char_tables(prog):
    """Symbol tables of the lexer: {tuple(chars): Token variant} from every
    lexer function whose parameters are all `char` and that returns
    Option<Token>."""
    out = {}
    fns = []
    for f in prog.hand_fns():
        if not f.module.startswith("lexer") or f.is_closure or not f.locals:
            continue
        if f.locals[0] != "std::option::Option<lexer::Token>":
            continue
        if f.arg_count < 1 or any(f.locals[i] != "char" for i in range(1, f.arg_count + 1)):
            continue
        fns.append(f)
        k = f.arg_count

        def walk(bb, env, depth=0):
            if depth > 64:
                return
            for s in f.stmts(bb):
                if s[0] == "=" and s[2][0] == "agg" and s[2][1].get("k") == "adt" \
                        and s[2][1]["adt"] == "lexer::Token":
                    if all(e is not None for e in env):
                        out.setdefault(tuple(env), set()).add(s[2][1]["variant"])
            t = f.term(bb)
            if t["k"] == "switch":
                info = f.switch_info(bb)
                if info and info["kind"] == "char" and mir.is_place_operand(info["on"]):
                    cp = f.canon(mir.op_place(info["on"]))
                    if cp[0][0] == "arg" and len(cp) == 1:
                        i = cp[0][1] - 1
                        for ch, tgt in info["cases"]:
                            e2 = list(env)
                            e2[i] = ch
                            walk(tgt, e2, depth + 1)
                        return   # the otherwise edge carries no character
            for s2 in f.succs(bb):
                if t["k"] != "switch":
                    walk(s2, env, depth + 1)
        walk(0, [None] * k)
    return out, fns


def static_tables(prog):
    """Spelling tables kept as data: for every `static` of the lexer module
    whose initialiser is an array of `(spelling, Token)` pairs, the pairs —
    provided some lexer function that answers `Option<Token>` reads the
    static.  Returns ({static path: [(spelling, variant)]}, {path: readers},
    [paths whose entries could not all be read])."""
    tabs, readers, opaque = {}, {}, []
    for path, j in prog.statics.items():
        if not j.get("module", "").startswith("lexer"):
            continue
        pairs = []
        bad = False
        n_tuples = 0
        for pb in j.get("promoted_bodies", []):
            tok_of = {}
            for st in pb["stmts"]:
                rv = st[2]
                if rv[0] == "agg" and rv[1].get("k") == "adt" and rv[1].get("adt") == "lexer::Token" and not st[1][1]:
                    tok_of[st[1][0]] = rv[1]["variant"] if not rv[2] else None
            for st in pb["stmts"]:
                rv = st[2]
                if rv[0] != "agg" or rv[1].get("k") != "tuple" or len(rv[2]) != 2:
                    continue
                if "lexer::Token" not in pb["locals"][st[1][0]]:
                    continue
                n_tuples += 1
                k = mir.op_const(rv[2][0])
                spell = k.get("v") if k else None
                tok = tok_of.get(mir.op_place(rv[2][1])[0]) if mir.is_place_operand(rv[2][1]) else None
                if isinstance(spell, str) and tok:
                    pairs.append((spell, tok))
                else:
                    bad = True
        if not n_tuples:
            continue
        rd = []
        for f in prog.full_fns(generated=False):
            if not f.module.startswith("lexer"):
                continue
            rf = f.root_fn()
            if not rf.locals or rf.locals[0] != "std::option::Option<lexer::Token>":
                continue
            for bb in range(len(f.blocks)):
                for st in f.stmts(bb):
                    if st[0] == "=":
                        for o in mir.rvalue_operands(st[2]):
                            k = mir.op_const(o)
                            if k and k.get("static") == path:
                                rd.append(rf.path)
        if not rd:
            continue
        tabs[path] = pairs
        readers[path] = sorted(set(rd))
        if bad:
            opaque.append(path)
    return tabs, readers, opaque


def rule_R08_3(ctx):
    prog = ctx.prog
    g = ctx.grammar
    r = RuleResult("R08.3", "the lexer's symbol tables produce, for each "
                   "punctuation terminal of the grammar, exactly the Token "
                   "the grammar maps that terminal to",
                   "a character sequence lexed as another operator's token "
                   "silently changes the operator that is parsed")
    tables, fns = char_tables(prog)
    punct = {t: v for t, v in g.terminals.items()
             if t and not (t[0].isalpha() or t[0] == "_")}
    r.require_floor("punctuation terminals in the extern block", len(punct), 30)
    got = {"".join(k): v for k, v in tables.items()}
    # table-driven lexers: `static SYMBOLS: &[(&str, Token)]` read by a lookup
    stabs, readers, opaque = static_tables(prog)
    for path, pairs in sorted(stabs.items()):
        sym = [(sp, tk) for sp, tk in pairs if sp and not (sp[0].isalpha() or sp[0] == "_")]
        if not sym:
            continue
        r.inst("%s: %d punctuation spellings, read by %s" % (path, len(sym), readers[path]))
        r.unproven.append("%s: the lookup predicate of %s is taken to match a spelling exactly "
                          "(the table's content is checked, the matching loop is not)" % (path, readers[path]))
        if path in opaque:
            r.fail("%s | table entries not readable" % path,
                   "some entries of the spelling table %s are not (string literal, unit Token) pairs" % path)
        for sp, tk in sym:
            got.setdefault(sp, set()).add(tk)
        dup = sorted(set(sp for sp, _ in sym if [x for x, _ in sym].count(sp) > 1))
        if dup:
            r.fail("%s | duplicate spellings %s" % (path, ",".join(dup)),
                   "the spelling table lists %s more than once" % dup)
    r.require_floor("character sequences the lexer's symbol tables recognise", len(got), 30)
    r.inst("lexer tables: %d sequences; grammar punctuation terminals: %d" % (len(got), len(punct)))
    for t, v in sorted(punct.items()):
        gv = got.get(t)
        if gv == {v}:
            r.ok()
        else:
            r.fail("lexer | terminal=%s token=%s expected=%s" % (t, ",".join(sorted(gv or [])), v),
                   "character sequence %r is lexed as %s but the grammar maps "
                   "the terminal to Token::%s" % (t, sorted(gv or []), v))
    for t, gv in sorted(got.items()):
        if t not in punct:
            r.fail("lexer | sequence=%s not-a-terminal" % t,
                   "the lexer produces %s for %r, which is not a grammar terminal" % (sorted(gv), t))
    return r


def run(ctx):
    return [rule_R08_1(ctx), rule_R08_2(ctx), rule_R08_3(ctx)]


META = {
    "level": "proof",
    "technique": "grammar stratification analysis over LALRPOP's normalised "
                 "BNF + provenance of the semantic actions' MIR",
    "trusted_base": ["LALRPOP 0.22.0 builds a correct LR(1) parser for the "
                     "grammar it prints and rejects ambiguous grammars",
                     "rustc MIR of the generated __actionN functions"],
    "assumptions": ["for a stratified grammar accepted by LALRPOP the parse "
                    "of any operator sequence groups by tier index and "
                    "left-to-right within a tier, at every depth (DESIGN §3 A8)"],
    "explanation": "The property is a statement about the grammar's shape: "
                   "tier membership of every operator, left recursion of "
                   "every infix tier, postfix/atom shapes, the parenthesis "
                   "production, and what AST each production's action builds. "
                   "All are finite tables extracted from the generated parser "
                   "and compared with the documented ones.",
}
