"""C09 — newline equals `;`; layout never changes meaning (table clauses)."""
import mir
import prov
from framework import RuleResult

TOKEN = "lexer::Token"
MOD_MAIN = "__parse__Prog"

# from the property statement: a line break directly after one of these
# continues the statement
CONT_TERMINALS = ["+", "-", "*", "/", "%", "==", "!=", "<", "<=", ">", ">=",
                  "&&", "||", "=", ":=", "+=", "-=", "*=", "/=", "%=",
                  ",", ".", "(", "[", "{"]


def lexer_next(prog):
    for f in prog.hand_fns():
        if f.impl_trait == "std::iter::Iterator" and (f.impl_self or "").startswith("lexer::Lexer") \
                and f.path.endswith("::next"):
            return f
    return None


def _classify_target(f, tgt, loops):
    """'emit' if control from tgt assigns the return place before re-entering
    a loop header, 'suppress' if it reaches a loop header first."""
    headers = set(loops.keys())
    seen = set()
    st = [tgt]
    kinds = set()
    while st:
        bb = st.pop()
        if bb in seen:
            continue
        seen.add(bb)
        if bb in headers:
            kinds.add("suppress")
            continue
        assigns_ret = False
        for s in f.stmts(bb):
            if s[0] == "=" and s[1][0] == 0:
                assigns_ret = True
        t = f.term(bb)
        if t["k"] == "call" and t["dst"][0] == 0:
            assigns_ret = True
        if assigns_ret or t["k"] == "return":
            kinds.add("emit")
            continue
        st.extend(f.succs(bb))
    return kinds


def _no_helpers(call):
    return False


def _classify_target_flags(f, tgt, loops):
    """Like _classify_target, but along paths consistent with the bool flags
    assigned on the way (the table's answer travels in a flag to the test that
    emits or drops the terminator)."""
    headers = set(loops.keys())
    # only the loops that can return a token count as "back to scanning"
    flags = mir.flag_locals(f)
    rets = f.return_locals()
    seen = set()
    st = [(tgt, frozenset())]
    kinds = set()
    budget = 20000
    while st and budget > 0:
        budget -= 1
        bb, envk = st.pop()
        if (bb, envk) in seen:
            continue
        seen.add((bb, envk))
        if bb in headers:
            kinds.add("suppress")
            continue
        assigns_ret = False
        for s in f.stmts(bb):
            if s[0] == "=" and s[1][0] == 0:
                assigns_ret = True
        t = f.term(bb)
        if t["k"] == "call" and t["dst"][0] == 0:
            assigns_ret = True
        if assigns_ret or t["k"] == "return":
            kinds.add("emit")
            continue
        env = mir.flag_transfer(f, flags, bb, dict(envk))
        k2 = frozenset(env.items())
        for s2 in mir.flag_edges(f, flags, bb, env):
            st.append((s2, k2))
    if budget <= 0:
        kinds |= {"emit", "suppress"}
    return kinds


def rule_R09_1(ctx):
    prog = ctx.prog
    g = ctx.grammar
    r = RuleResult("R09.1", "the tokens after which a statement terminator "
                   "is dropped are exactly the documented continuation "
                   "tokens (plus a terminator itself and start of input)",
                   "a missing token ends a statement early after that "
                   "operator; an extra one glues two statements together")
    f = lexer_next(prog)
    if f is None:
        r.anchor_missing("<lexer::Lexer as Iterator>::next")
        return r
    variants = prog.enum_variant_names(TOKEN)
    r.require_floor("Token variants", len(variants), 45)
    loops = f.natural_loops()
    # the decision switch: a discriminant switch on a Token with many cases,
    # in Lexer::next itself or in a bool-returning helper it consults
    def big_switch(fn_):
        best_ = None
        for bb_ in range(len(fn_.blocks)):
            if fn_.is_cleanup(bb_) or fn_.term(bb_)["k"] != "switch":
                continue
            info_ = fn_.switch_info(bb_)
            if info_ and info_["kind"] == "discr" and info_["enum"] == TOKEN \
                    and len(info_["cases"]) >= 10:
                if best_ is None or len(info_["cases"]) > len(best_[1]["cases"]):
                    best_ = (bb_, info_)
        return best_
    best = big_switch(f)
    helper = None
    none_answer = None
    flagged = False
    if best is None:
        # the table may sit in a small bool helper consulted through a flag
        # (`let keep = *t != StmtEnd || stmt_can_end_after(last); if keep {..}`):
        # read `next` with such leaves (then with its private helpers) inlined
        # and follow the flag from the table to the emit/suppress decision
        import inline
        for kw in ({"pick": _no_helpers, "leaves": True}, {"leaves": True},
                   {"leaves": True, "closures": True, "combinators": True}):
            fv = inline.view(prog, f, **kw)
            if fv is not f and big_switch(fv) is not None:
                f = fv
                best = big_switch(fv)
                loops = f.natural_loops()
                flagged = True
                r.inst("continuation table read in the inlined view of Lexer::next (%s)"
                       % sorted(m for m in fv.members if m != fv.path))
                break
    if best is None:
        def ret_consts(hf_, tgt):
            outs = set()
            seen_ = set()
            st_ = [tgt]
            while st_:
                x = st_.pop()
                if x in seen_:
                    continue
                seen_.add(x)
                done = False
                for s_ in hf_.stmts(x):
                    if s_[0] == "=" and s_[1][0] == 0 and not s_[1][1] and s_[2][0] == "use":
                        v_ = mir.const_val(s_[2][1])
                        if isinstance(v_, bool):
                            outs.add(v_)
                            done = True
                if not done:
                    st_.extend(hf_.succs(x))
            return outs

        def bool_table(hf_, depth=0):
            """(variant -> set of returned bools, answer for `no token` or
            None) of a bool-returning helper: its own table, or the (possibly
            negated) table of a bool helper it wraps."""
            bs = big_switch(hf_)
            if bs is not None:
                tab = {}
                for v, tgt in bs[1]["cases"]:
                    tab[v] = ret_consts(hf_, tgt)
                oth = ret_consts(hf_, bs[1]["otherwise"])
                for v in variants:
                    tab.setdefault(v, oth)
                return tab, None
            if depth >= 2:
                return None
            for c_ in hf_.calls():
                g_ = prog.fns.get(c_.res) if not c_.is_ptr else None
                if g_ is None or not g_.full or not g_.locals or g_.locals[0] != "bool" \
                        or not g_.module.startswith("lexer") or g_.path == hf_.path:
                    continue
                sub_ = bool_table(g_, depth + 1)
                if sub_ is None:
                    continue
                neg = None
                consts = set()
                for (b_, i_, kind_, payload_) in hf_.defs().get(0, []):
                    if kind_ == "call":
                        if payload_.bb == c_.bb:
                            neg = False
                        continue
                    rv_ = payload_
                    if rv_[0] == "use":
                        cv_ = mir.const_val(rv_[1]) if not mir.is_place_operand(rv_[1]) else None
                        if isinstance(cv_, bool):
                            consts.add(cv_)
                        elif mir.is_place_operand(rv_[1]) and hf_.canon_op(rv_[1])[0] == ("call", c_.bb):
                            neg = False
                    elif rv_[0] == "un" and rv_[1] == "Not" and mir.is_place_operand(rv_[2]) \
                            and hf_.canon_op(rv_[2])[0] == ("call", c_.bb):
                        neg = True
                if neg is None:
                    continue
                tab = {v: ({(not b) for b in s_} if neg else set(s_)) for v, s_ in sub_[0].items()}
                return tab, (consts or None)
            return None
        htab = None
        for hf in prog.hand_fns():
            if hf.module.startswith("lexer") and not hf.from_expansion and hf.locals \
                    and hf.locals[0] == "bool" and not hf.is_closure:
                if not any(c.res == hf.path for c in f.calls() if not c.is_ptr):
                    continue
                bt = bool_table(hf)
                if bt is not None:
                    helper = hf
                    htab, none_answer = bt
        if helper is None:
            for hf in prog.hand_fns():
                if hf.module.startswith("lexer") and not hf.from_expansion and hf.locals \
                        and hf.locals[0] == "bool" and big_switch(hf) is not None:
                    helper = hf
                    htab, none_answer = bool_table(hf)
        if helper is None:
            r.anchor_missing("continuation table (switch on a Token) in the lexer")
            return r
        # the helper's result must decide, in Lexer::next, whether a
        # terminator is emitted
        ctrl = None
        for c in f.calls():
            if not c.is_ptr and c.res == helper.path and c.target is not None \
                    and f.term(c.target)["k"] == "switch":
                i2 = f.switch_info(c.target)
                if i2 and i2["kind"] == "bool":
                    ctrl = i2
        r.inst("continuation table is in helper %s" % helper.path)
        if ctrl is None:
            r.fail("%s | table in %s does not control emission" % (f.path, helper.path.split("::")[-1]),
                   "the continuation table lives in %s but its result does "
                   "not decide, in Lexer::next, whether a statement "
                   "terminator token is emitted or dropped: terminators "
                   "(`;` as well as newline) after a continuation token are "
                   "no longer discarded by this mechanism" % helper.path,
                   where=mir.span_loc(f.span))
            return r
        t_true = ctrl["otherwise"]
        t_false = None
        for v, tgt in ctrl["cases"]:
            if v is True:
                t_true = tgt
            if v is False:
                t_false = tgt
        if t_false is None:
            t_false = ctrl["otherwise"]
        k_true = _classify_target(f, t_true, loops)
        k_false = _classify_target(f, t_false, loops)
        table = {}
        for v in variants:
            ks = set()
            for b_ in htab[v]:
                ks |= (k_true if b_ else k_false)
            table[v] = ks
        info = ctrl
        bb = c.target
    else:
        bb, info = best
        table = {}
        cls = _classify_target_flags if flagged else _classify_target
        for v, tgt in info["cases"]:
            table[v] = cls(f, tgt, loops)
        other = cls(f, info["otherwise"], loops)
        for v in variants:
            if v not in table:
                table[v] = other
    suppress = sorted(v for v, k in table.items() if k == {"suppress"})
    emit = sorted(v for v, k in table.items() if k == {"emit"})
    mixed = sorted(v for v, k in table.items() if k not in ({"suppress"}, {"emit"}))
    r.inst("suppress a following terminator after: %s" % suppress)
    r.inst("emit it after: %d other tokens" % len(emit))
    for v in mixed:
        want = "suppress" if v in {g.terminals.get(t) for t in CONT_TERMINALS} | {"StmtEnd"} else "emit"
        r.fail("%s | conditional-after=%s" % (f.path, v),
               "after token %s a statement terminator is sometimes dropped "
               "and sometimes emitted (outcomes %s); the documented rule is "
               "unconditional: always %s" % (v, sorted(table[v]), want),
               where=mir.span_loc(info["raw"]["span"]) if "raw" in info else f.path)
    missing_terms = [t for t in CONT_TERMINALS if t not in g.terminals]
    if missing_terms:
        r.fail("grammar | terminals-missing=%s" % ",".join(missing_terms),
               "the grammar no longer declares terminals %s" % missing_terms)
    expected = {g.terminals[t] for t in CONT_TERMINALS if t in g.terminals}
    expected.add(g.terminals.get("stmt_end", "StmtEnd"))
    for v in variants:
        if v in mixed:
            continue
        if (v in suppress) == (v in expected):
            r.ok()
        elif v in suppress:
            r.fail("%s | suppresses-after=%s" % (f.path, v),
                   "a line break after token %s continues the statement, but "
                   "%s is not a documented continuation token" % (v, v),
                   where=mir.span_loc(info["raw"]["span"]))
        else:
            r.fail("%s | emits-after=%s" % (f.path, v),
                   "a line break after the documented continuation token %s "
                   "ends the statement" % v, where=mir.span_loc(info["raw"]["span"]))
    # start of input (no previous token) suppresses
    opt_sw = None
    for b2 in range(len(f.blocks)):
        if f.is_cleanup(b2) or f.term(b2)["k"] != "switch":
            continue
        i2 = f.switch_info(b2)
        if i2 and i2["kind"] == "discr" and i2["enum"] in ("std::option::Option<lexer::Token>",
                                                           "std::option::Option<&lexer::Token>") \
                and f.dominates(b2, bb):
            opt_sw = i2
    if opt_sw is None and none_answer is not None and helper is not None:
        ks = set()
        for b_ in none_answer:
            ks |= (k_true if b_ else k_false)
        r.inst("no previous token -> %s (answered by %s)" % (sorted(ks), helper.path))
        if ks == {"suppress"}:
            r.ok()
        else:
            r.fail("%s | start-of-input=%s" % (f.path, ",".join(sorted(ks))),
                   "a terminator at the start of the input must be dropped")
    elif opt_sw is None:
        r.unproven.append("no Option<Token> switch dominating the table")
    else:
        none_t = opt_sw["otherwise"]
        for n, tgt in opt_sw["cases"]:
            if n == "None":
                none_t = tgt
        k = (_classify_target_flags if flagged else _classify_target)(f, none_t, loops)
        r.inst("no previous token -> %s" % sorted(k))
        if k == {"suppress"}:
            r.ok()
        else:
            r.fail("%s | start-of-input=%s" % (f.path, ",".join(sorted(k))),
                   "a terminator at the start of the input must be dropped")
    # the table is consulted only for terminators: the emitted-early test
    # compares the current token with Token::StmtEnd
    cmp_ok = False
    for c in f.calls():
        if (c.declared or "") in ("std::cmp::PartialEq::ne", "std::cmp::PartialEq::eq") \
                and c.argtys and TOKEN in c.argtys[0]:
            for a in c.args:
                if mir.is_place_operand(a):
                    cpa = f.canon(mir.op_place(a))
                    if cpa[0][0] == "agg":
                        st = f.stmts(cpa[0][1])[cpa[0][2]]
                        if st[2][1].get("variant") == "StmtEnd":
                            cmp_ok = True
    if cmp_ok:
        r.ok()
    else:
        r.unproven.append("comparison of the current token with Token::StmtEnd not recognised")
    return r


def rule_R09_2(ctx):
    prog = ctx.prog
    r = RuleResult("R09.2", "the characters lexed as a statement terminator "
                   "are exactly newline and `;`, through one construction site",
                   "another terminator character (or a missing one) changes "
                   "where statements end")
    pv = ctx.memo("prov", lambda: prov.Prov(prog))
    sites = []
    for f in prog.hand_fns():
        if not f.module.startswith("lexer") or f.from_expansion:
            continue
        for bb, i, pl, kd, aops, sp in f.aggregates(TOKEN, "StmtEnd"):
            # does this aggregate flow into the function's result?
            o = pv.origins(f, [0, []], (prov.ANY,))
            flows = any(x[0] == "agg" and x[1] == f.path and x[2] == bb and x[3] == i for x in o)
            if flows:
                sites.append((f, bb, sp))
    r.inst("terminator construction sites flowing to a lexer result: %s"
           % [(f.path, mir.span_loc(sp)) for f, bb, sp in sites])
    if len(sites) != 1:
        r.fail("lexer | StmtEnd-construction-sites=%d" % len(sites),
               "expected exactly one site producing Token::StmtEnd")
        return r
    r.ok()
    f, B, sp = sites[0]
    chars = set()
    subject = set()
    for bb in range(len(f.blocks)):
        if f.is_cleanup(bb) or f.term(bb)["k"] != "switch":
            continue
        info = f.switch_info(bb)
        if not info or info["kind"] != "bool":
            continue
        rv = f.bool_def(info["on"])
        if not rv or rv[0] != "bin" or rv[1] not in ("Eq", "Ne"):
            continue
        ch = None
        other = None
        for x, y in ((rv[2], rv[3]), (rv[3], rv[2])):
            c = mir.op_const(x)
            if c is not None and c.get("ty") == "char":
                ch, other = c.get("v"), y
        if ch is None:
            continue
        t_true = info["otherwise"]
        t_false = None
        for v, tgt in info["cases"]:
            if v is False:
                t_false = tgt
            if v is True:
                t_true = tgt
        if t_false is None:
            t_false = info["otherwise"]
        eq_t = t_true if rv[1] == "Eq" else t_false
        # reaches B from the equal edge without another character test
        seen = set()
        st = [eq_t]
        hit = False
        while st:
            x = st.pop()
            if x in seen:
                continue
            seen.add(x)
            if x == B:
                hit = True
                break
            if f.term(x)["k"] == "switch":
                continue
            st.extend(f.succs(x))
        if hit:
            chars.add(ch)
            subject.add(f.canon_op(other))
    r.inst("%s: terminator characters %s" % (f.path, sorted(repr(c) for c in chars)))
    if chars == {"\n", ";"}:
        r.ok()
    else:
        r.fail("%s | terminator-chars=%s" % (f.path, ",".join(sorted(repr(c) for c in chars))),
               "Token::StmtEnd is produced for characters %s; documented: "
               "newline and ';'" % sorted(repr(c) for c in chars), where=mir.span_loc(sp))
    if len(subject) == 1:
        r.ok()
    else:
        r.unproven.append("terminator tests compare different values: %s" % sorted(map(str, subject)))
    return r


def rule_R09_3(ctx):
    g = ctx.grammar
    r = RuleResult("R09.3", "every statement is followed by a terminator and "
                   "terminators mean nothing else (grammar)",
                   "a production allowing a statement without its terminator "
                   "or using the terminator elsewhere changes statement "
                   "boundaries")
    ups = g.user_productions(MOD_MAIN)
    if not r.require_floor("grammar productions", len(ups), 100):
        return r
    uses = [(lhs, syms) for lhs, syms, act in ups if '"stmt_end"' in syms]
    r.inst("productions mentioning stmt_end: %s" % uses)
    if len(uses) == 1 and uses[0][1][-1] == '"stmt_end"' and len(uses[0][1]) == 2:
        r.ok()
    else:
        r.fail("grammar | stmt_end-uses=%d" % len(uses),
               "the terminator must occur in exactly one production "
               "`Stmt = RawStmt stmt_end`; found %s" % uses)
        return r
    stmt_nt, raw_nt = uses[0][0], uses[0][1][0]
    # RawStmt only reachable through Stmt
    bad = [(lhs, syms) for lhs, syms, act in ups if raw_nt in syms and lhs != stmt_nt]
    r.inst("uses of %s outside %s: %s" % (raw_nt, stmt_nt, bad))
    if not bad:
        r.ok()
    else:
        r.fail("grammar | raw-statement-used-without-terminator",
               "%s is used outside %s: %s" % (raw_nt, stmt_nt, bad))
    # Stmt has exactly that production
    others = [(lhs, syms) for lhs, syms, act in ups if lhs == stmt_nt and syms != uses[0][1]]
    if not others:
        r.ok()
    else:
        r.fail("grammar | extra-statement-productions",
               "%s has other productions: %s" % (stmt_nt, others))
    return r


def rule_R09_4(ctx):
    import re
    prog = ctx.prog
    r = RuleResult("R09.4", "evaluation never looks anything up by source "
                   "position: no table in the evaluator is keyed by line/"
                   "column, and interpolation slots are parsed from their own text",
                   "a position-keyed table makes behaviour depend on layout "
                   "(moving a line changes which entry is hit)")
    n = 0
    for f in prog.hand_fns():
        if f.from_expansion or not f.module.startswith("eval"):
            continue
        for c in f.calls():
            if c.is_ptr:
                continue
            full = c.res_full or ""
            m = re.match(r"std::collections::(HashMap|BTreeMap|HashSet|BTreeSet)::<(.*)>::(get|insert|entry|contains_key|contains|get_mut|remove)\b", full)
            if not m:
                continue
            n += 1
            inner = m.group(2)
            # key type = first generic argument
            depth = 0
            key = ""
            for ch in inner:
                if ch in "<(":
                    depth += 1
                elif ch in ">)":
                    depth -= 1
                if ch == "," and depth == 0:
                    break
                key += ch
            addr = False
            if re.search(r"\busize\b", key) and len(c.args) > 1:
                # a key made of addresses (Arc::as_ptr ...) is not a source
                # position: identity/address hazards belong to C10/C19
                import prov as _prov
                pv = ctx.memo("prov_stop", lambda: _prov.Prov(prog, foreign="stop"))
                org = pv.origins(f, c.args[1], (_prov.ANY,))
                calls_ = [x for x in org if x[0] == "call"]
                addr = bool(calls_) and len(calls_) == len(org) and all(
                    x[3].split("::")[-1] in ("as_ptr", "addr", "as_mut_ptr", "into_raw") for x in calls_)
            if re.search(r"\busize\b", key) and addr:
                r.inst("%s: table keyed by addresses (not positions)" % f.path)
                r.ok()
            elif re.search(r"\busize\b", key):
                r.fail("%s | table keyed by %s" % (f.path, key.strip()[:40]),
                       "%s uses a table keyed by %s, i.e. by source "
                       "positions/offsets: evaluation can depend on layout"
                       % (f.path, key.strip()), where=c.loc)
            else:
                r.ok()
    r.inst("map/set accesses in the evaluator: %d (keys are names)" % n)
    r.require_floor("map accesses in the evaluator", n, 5)
    import c15
    r3 = c15.rule_R15_3(ctx)
    for v in r3.violations:
        v.rule = "R09.4"
        v.key = v.key.replace("R15.3", "R09.4", 1)
        r.violations.append(v)
        r.obligations += 1
    r.obligations += r3.discharged
    r.discharged += r3.discharged
    r.instances.extend(r3.instances)
    return r


def rule_R09_5(ctx):
    import units
    r = units.rule_units(ctx, "R09.5")
    r.title = ("comments and whitespace are skipped by exactly their own extent: "
               "byte offsets and character counts are never mixed in the lexer")
    r.necessary_for = ("a comment skipped by a byte length counted in characters "
                       "(or the reverse) swallows the line terminator after it: "
                       "the text of a comment then changes the program")
    keep = [v for v in r.violations if "lexer" in v.key]
    r.obligations -= len(r.violations) - len(keep)
    r.violations = keep
    for v in r.violations:
        v.rule = "R09.5"
    return r


def _char_consts_into(f, operand, depth=0, seen=None):
    """`char` constants on the intraprocedural definition chain of an
    operand (copies, moves, `Some(..)`/tuple aggregates, casts); a projected
    read (the payload of the iterator's `next()`) or a call ends a chain."""
    seen = seen if seen is not None else set()
    out = []
    if not mir.is_place_operand(operand):
        c = mir.op_const(operand)
        if (c.get("ty") or "") == "char":
            out.append(repr(c.get("v", c.get("pp"))))
        return out
    pl = mir.op_place(operand)
    if pl[1] or pl[0] in seen or depth > 12:
        return out
    seen.add(pl[0])
    for (bb, idx, kind, payload) in f.defs().get(pl[0], []):
        if kind != "rv":
            continue
        rv = payload
        if rv[0] in ("use", "cast") and len(rv) > 1:
            out.extend(_char_consts_into(f, rv[1], depth + 1, seen))
        elif rv[0] == "agg":
            for o in rv[2]:
                out.extend(_char_consts_into(f, o, depth + 1, seen))
    return out


def rule_R09_6(ctx, rule_id="R09.6"):
    """The scanner hands the lexer the characters of the source, unchanged:
    the `char` it stores as its current character only ever comes out of the
    character iterator.  A constant stored there (CR LF folded into `\n`, a
    tab expanded, a NUL replaced) rewrites the *content* of string literals
    and changes which bytes separate tokens."""
    prog = ctx.prog
    r = RuleResult(rule_id, "the scanner never fabricates a character: no `char` "
                   "constant flows into its current-character field",
                   "a normalised character (CRLF -> LF, ..) changes string "
                   "literals that contain it: the literal no longer denotes "
                   "exactly its characters, and the same text written with "
                   "`\\xHH` escapes compares different")
    n = 0
    for f in prog.hand_fns():
        if f.from_expansion or f.generated or not f.module.startswith("lexer"):
            continue
        for bb, i, pl, rv, sp in f.assigns():
            if not pl[1] or pl[1][-1] == "*" or pl[1][-1][0] != "f":
                continue
            last = pl[1][-1]
            if len(last) < 3 or last[2] != "std::option::Option<char>":
                continue
            n += 1
            ops_ = [rv[1]] if rv[0] == "use" else (list(rv[2]) if rv[0] == "agg" else [])
            cs = []
            for o in ops_:
                cs.extend(_char_consts_into(f, o))
            if cs:
                r.fail("%s | constant character %s stored as the current character" % (f.path, ",".join(sorted(set(cs)))),
                       "%s stores the constant %s into `%s`: the lexer then "
                       "sees a character the source does not contain at that "
                       "position" % (f.path, ", ".join(sorted(set(cs))), last[3]), where=mir.span_loc(sp))
            else:
                r.ok()
    r.inst("stores into an `Option<char>` field of a lexer struct: %d" % n)
    holders = [path for path, a in prog.adts.items()
               if (a.get("module") or "").startswith("lexer")
               and any(fl.get("ty") == "std::option::Option<char>"
                       for v in a.get("variants", []) for fl in v.get("fields", []))]
    if holders:
        r.require_floor("stores into the current-character field of %s" % ", ".join(sorted(holders)), n, 1)
    else:
        # a scanner that keeps no current character (it peeks its iterator)
        # has no slot a fabricated character could be put into
        r.notes.append("no lexer struct keeps a current character (`Option<char>` field): nothing to store into")
        if not r.violations:
            r.ok()
    return r


def run(ctx):
    return [rule_R09_1(ctx), rule_R09_2(ctx), rule_R09_3(ctx), rule_R09_4(ctx), rule_R09_5(ctx), rule_R09_6(ctx)]


META = {
    "level": "proof",
    "technique": "decision-table extraction from the lexer's MIR (token and "
                 "character switches) compared through the grammar's "
                 "terminal map; grammar production census; def-use check that "
                 "no `char` constant reaches the scanner's current-character "
                 "field",
    "trusted_base": ["rustc MIR", "LALRPOP's printed normal form"],
    "assumptions": ["whitespace/comment skipping, `_` separators, \\xHH "
                    "equivalence and position shifts are not decided"],
    "explanation": "Decides the finite tables behind C09: which previous "
                   "tokens suppress a terminator, which characters are "
                   "terminators, and that the grammar requires a terminator "
                   "after every statement and nowhere else.",
}
