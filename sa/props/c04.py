"""C04 — lexical scoping; closures capture their defining scope by reference."""
import anchors
import mir
import ops
import prov
from framework import RuleResult

SCOPESTACK = "eval::scope::ScopeStack"
FUNC = "eval::value::Func"
BLOCK_TY = "&std::vec::Vec<ast::Stmt>"


def rule_R04_1(ctx):
    prog = ctx.prog
    r = RuleResult("R04.1", "a function value captures a clone of the scope "
                   "chain current at its creation",
                   "an empty, popped or caller-supplied chain gives dynamic "
                   "scoping or loses the defining scope")
    pv = prov.Prov(prog, foreign="stop")
    sites = []
    for f in prog.hand_fns():
        if f.from_expansion:
            continue
        for bb, i, pl, kd, aops, sp in f.aggregates(FUNC):
            sites.append((f, bb, kd, aops, sp))
    r.require_floor("Func construction sites", len(sites), 1)
    n_callers = 0
    for f, bb, kd, aops, sp in sites:
        ci = kd["fields"].index("closure")
        o = pv.origins(f, aops[ci], ())
        # expect: parameters of evaluator functions of type &mut ScopeStack,
        # reached through ScopeStack::clone (derive => identity for Prov)
        params = [x for x in o if x[0] == "param"]
        others = [x for x in o if x[0] not in ("param",)]
        # Prov stops at parameters without callers; evaluator entry points are
        # called, so resolve one level by hand: find the direct producers
        prod = set()
        for x in o:
            prod.add(x[0])
        # local view: walk constructor wrappers to the creating call sites
        creators = []
        vm = anchors.value_module(prog)
        cp = f.canon_op(aops[ci])
        if f.module.startswith(vm) and cp[0][0] == "arg":
            # a constructor of the value module: its call sites create functions
            for c in prog.callers_of(f.path):
                creators.append((c.fn, c.args[cp[0][1] - 1], c.loc))
        elif not f.module.startswith(vm):
            # the Func is written out where the function value is created
            creators.append((f, aops[ci], mir.span_loc(sp)))
        else:
            r.unproven.append("%s: Func.closure is not a plain parameter" % f.path)
        r.inst("%s builds Func; creators: %s" % (f.path, [g_.path for g_, _, _ in creators]))
        for g, arg, where_ in creators:
            n_callers += 1
            acp = g.canon_op(arg)
            ok = False
            why = str(acp)
            if acp[0][0] == "call":
                cc = g.call_at(acp[0][1])
                if cc is not None and ((cc.declared or "") == "std::clone::Clone::clone"
                                       or (not cc.is_ptr and cc.res in anchors.chain_cloners(prog))) \
                        and cc.argtys and SCOPESTACK in cc.argtys[0]:
                    src = g.canon_op(cc.args[0])
                    src = tuple(p for p in src if p not in ("&", "*"))
                    root = g.root_fn()
                    root_ty = g.root_fn().locals[src[0][1]] if src and src[0][0] == "arg" and not g.is_closure \
                        else (g.locals[src[0][1]] if src and src[0][0] == "arg" else "")
                    if src and src[0][0] == "arg" and (anchors.is_chain_ty(prog, root_ty)
                                                       or (root_ty.startswith("&") and anchors._strip_ty(root_ty) == SCOPESTACK)):
                        want = tuple(("f", p[1]) for p in anchors.chain_pi(prog, root_ty) if p != "*")
                        if tuple(src[1:]) == want:
                            ok = True
                    why = "clone of %s" % (src,)
                    # a creation helper that is *handed* the chain to capture
                    # (`new_closure(scopes: &ScopeStack, ..)`): what it is handed
                    # must be the current chain of each of its callers
                    if ok and not g.is_closure and root_ty.startswith("&") and "mut " not in root_ty \
                            and not anchors.is_chain_ty(prog, root_ty) and prog.callers_of(g.path) \
                            and not any(anchors.is_chain_ty(prog, t) for t in g.locals[1:g.arg_count + 1]):
                        k = src[0][1]
                        n_callers -= 1
                        for c2 in prog.callers_of(g.path):
                            n_callers += 1
                            h = c2.fn
                            a2 = tuple(p for p in h.canon_op(c2.args[k - 1]) if p not in ("&", "*")) \
                                if k - 1 < len(c2.args) and mir.is_place_operand(c2.args[k - 1]) else ()
                            hty = (h.root_fn().locals[a2[0][1]] if not h.is_closure else h.locals[a2[0][1]]) \
                                if a2 and a2[0][0] == "arg" else ""
                            good = bool(a2) and a2[0][0] == "arg" and (anchors.is_chain_ty(prog, hty) or (
                                hty.startswith("&") and anchors._strip_ty(hty) == SCOPESTACK)) \
                                and tuple(a2[1:]) == tuple(("f", p[1]) for p in anchors.chain_pi(prog, hty) if p != "*")
                            r.inst("%s: hands %s the chain %s" % (h.path, g.path.split("::")[-1], a2))
                            if good:
                                r.ok()
                            else:
                                r.fail("%s | captured-chain=%s" % (h.path, str(a2)[:60]),
                                       "%s creates a function value (through %s) whose closure is "
                                       "not a clone of its current scope chain (%s)" % (h.path, g.path, a2), where=c2.loc)
            r.inst("%s: closure captured = %s" % (g.path, why))
            if ok:
                r.ok()
            else:
                r.fail("%s | captured-chain=%s" % (g.path, why[:60]),
                       "%s creates a function value whose closure is not a "
                       "clone of the evaluator's current scope chain (%s)"
                       % (g.path, why), where=where_)
    r.require_floor("function-value creation sites", n_callers, 2)
    return r


def rule_R04_2(ctx):
    prog = ctx.prog
    r = RuleResult("R04.2", "scopes are shared cells: cloning a chain never "
                   "copies a scope's bindings",
                   "a deep copy turns capture by reference into capture by value")
    adt = prog.adts.get(SCOPESTACK)
    if not adt:
        r.anchor_missing("eval::scope::ScopeStack")
        return r
    fields = adt["variants"][0]["fields"]
    ty = fields[0]["ty"] if fields else ""
    r.inst("ScopeStack field: %s" % ty)
    SCALARS = ("usize", "u8", "u16", "u32", "u64", "i32", "i64", "isize", "bool", "char")
    MAP = anchors.scope_map_ty(prog)

    def shared_cell(t, depth=0):
        """Does type t hold scope maps, and only behind an Arc (so that a
        clone of t shares them)?  A Vec of cells, or an optional link to a
        node struct that holds its map in a Mutex and a link to its parent."""
        if depth > 4:
            return False
        for wrap in ("std::vec::Vec<", "std::option::Option<"):
            if t.startswith(wrap) and t.endswith(">"):
                return shared_cell(t[len(wrap):-1], depth + 1)
        if t.startswith("std::sync::Arc<") and t.endswith(">"):
            inner = t[len("std::sync::Arc<"):-1]
            if inner.startswith("std::sync::Mutex<") and MAP in inner:
                return True
            node = prog.adts.get(inner)
            if node and len(node.get("variants", [])) == 1:
                ftys = [fd["ty"] for fd in node["variants"][0]["fields"]]
                return any(x.startswith("std::sync::Mutex<") and MAP in x for x in ftys)
        return False
    cells = [fd for fd in fields if shared_cell(fd["ty"])]
    extra = [fd for fd in fields if fd not in cells and fd["ty"] not in SCALARS]
    if len(cells) == 1 and not extra:
        r.ok()
    else:
        r.fail("eval::scope::ScopeStack | representation cells=%d other=%s"
               % (len(cells), ",".join(fd["name"] + ":" + fd["ty"].split("<")[0] for fd in extra)),
               "a scope chain must be a list of shared (Arc<Mutex<..>>) scope "
               "cells; every other non-scalar field (%s) is copied when a "
               "closure captures the chain, i.e. captured by value"
               % [fd["name"] for fd in extra])
    n = 0
    for f in prog.full_fns(generated=False):
        for c in f.calls():
            full = c.res_full or ""
            if (c.declared or "") == "std::clone::Clone::clone" and c.argtys \
                    and c.argtys[0].lstrip("&").startswith(anchors.scope_map_ty(prog)):
                n += 1
                r.fail("%s | clones a scope map" % f.path,
                       "%s copies the bindings of a scope" % f.path, where=c.loc)
    cl = prog.fns.get("<eval::scope::ScopeStack as std::clone::Clone>::clone")
    if cl is None:
        r.unproven.append("no Clone impl for ScopeStack found")
    else:
        r.inst("ScopeStack::clone derived=%s" % cl.from_expansion)
        fresh = [c for c in cl.calls() if (c.declared or "") in ("std::sync::Mutex::<T>::new", "std::sync::Arc::<T>::new")]
        if cl.from_expansion or not fresh:
            r.ok()
        else:
            r.fail("ScopeStack::clone | allocates new scope cells",
                   "the hand-written Clone for ScopeStack creates new scope cells", where=fresh[0].loc)
    if n == 0:
        r.ok()
    return r


def _chain_ref(prog, t):
    """`&mut ScopeStack`, a chain carrier, or a shared `&ScopeStack` (a block
    evaluator that opens its own scope on top of the chain only reads it)."""
    return anchors.is_chain_ty(prog, t) or (t.startswith("&") and anchors._strip_ty(t) == SCOPESTACK)


def block_evaluators(prog):
    """Functions taking (&mut ScopeStack, &Block ...) that return Escape."""
    out = []
    for f in prog.hand_fns():
        if f.is_closure or f.from_expansion or not f.locals:
            continue
        if "eval::Escape" not in f.locals[0]:
            continue
        tys = [f.locals[i] for i in range(1, f.arg_count + 1)]
        if any(_chain_ref(prog, t) for t in tys) and any(anchors.is_seq_ref(t, "ast::Stmt") for t in tys):
            out.append(f)
    return out


def rule_R04_3(ctx):
    prog = ctx.prog
    r = RuleResult("R04.3", "a call evaluates the callee's body on the "
                   "callee's captured chain, never on the caller's",
                   "running the body on the caller's chain is dynamic scoping")
    pv = prov.Prov(prog, foreign="stop", field_based=False, follow_params=False)
    bes = {f.path for f in block_evaluators(prog)}
    if not r.require_floor("block evaluators", len(bes), 2):
        return r
    adt = prog.adts.get(FUNC)
    if adt:
        for i, fd in enumerate(adt["variants"][0]["fields"]):
            _FIELD_IDX[(FUNC, fd["name"])] = i
    found = 0
    passes = [(pv, False)]
    # second pass, only if the first finds no body evaluation: the body and
    # the captured chain may reach the block evaluator through a helper's
    # parameters (`run_func_body(context, closure, bindings, &stmts)`), so
    # origins are followed into the callers
    passes.append((None, True))
    for pv_, through_params in passes:
      if through_params:
          if found:
              break
          pv = prov.Prov(prog, foreign="stop", field_based=False, follow_params=True)
      for f in prog.hand_fns():
        if f.from_expansion:
            continue
        if through_params and f.root_fn().path in bes:
            continue      # a block evaluator handing its own block on
        for c in f.calls():
            if c.is_ptr or c.res not in bes:
                continue
            # is the block argument the stmts of a Func value?
            bi = [i for i, t in enumerate(c.argtys) if anchors.is_seq_ref(t, "ast::Stmt")]
            si = [i for i, t in enumerate(c.argtys) if _chain_ref(prog, t)]
            if not bi or not si:
                continue
            ob = pv.origins(f, c.args[bi[0]], ("*",))
            # (any field of the Func value but its captured chain: `stmts`
            # itself, or a definition struct that holds it)
            from_func = any(_mentions_adt_field(x, FUNC, other_than="closure") for x in ob)
            if not from_func:
                continue
            found += 1
            osx = pv.origins(f, c.args[si[0]], anchors.chain_pi(prog, c.argtys[si[0]]))
            from_closure = any(_mentions_field(x, FUNC, "closure") for x in osx)
            own_scopes = [x for x in osx if x[0] == "param" and
                          anchors.is_chain_ty(prog, f.root_fn().locals[x[2]])
                          and x[1] == f.root_fn().path]
            if through_params:
                own_scopes = [x for x in osx if x[0] == "param" and x[1] in prog.fns
                              and x[2] < len(prog.fns[x[1]].locals)
                              and anchors.is_chain_ty(prog, prog.fns[x[1]].locals[x[2]])]
            r.inst("%s: body of a Func evaluated on chain from Func.closure=%s, caller chain=%s"
                   % (f.path, from_closure, bool(own_scopes)))
            if from_closure and not own_scopes:
                r.ok()
            else:
                r.fail("%s | body-chain from-closure=%s from-caller=%s" % (f.path, from_closure, bool(own_scopes)),
                       "%s evaluates a function body on a scope chain that "
                       "%s" % (f.path, "comes from the caller" if own_scopes else
                               "does not come from the function's captured chain"),
                       where=c.loc)
    r.require_floor("calls evaluating a Func body", found, 1)
    return r


_FIELD_IDX = {}


def _mentions_field(origin, adt, fname, prog=None):
    """Does the residual projection of an origin select field `fname` of the
    crate struct `adt`?"""
    pi = origin[-1] if origin and isinstance(origin[-1], tuple) else ()
    for p in pi:
        if p != "*" and isinstance(p, tuple) and len(p) > 3 and p[0] == "f" and p[2] == adt:
            idx = _FIELD_IDX.get((adt, fname))
            if idx is not None and p[1] == idx:
                return True
    return False


def _mentions_adt_field(origin, adt, other_than=None):
    pi = origin[-1] if origin and isinstance(origin[-1], tuple) else ()
    skip = _FIELD_IDX.get((adt, other_than))
    for p in pi:
        if p != "*" and isinstance(p, tuple) and len(p) > 3 and p[0] == "f" and p[2] == adt and p[1] != skip:
            return True
    return False


def _lent_by_pusher(prog, clo, param_idx):
    """If closure `clo` is handed, in its parent, to a callback-style pusher
    of the scope module whose callback receives the chain as this parameter:
    (pusher fn, the call)."""
    parent = prog.fns.get(clo.parent or "")
    if parent is None or param_idx != 2:
        return None
    pushers = {p.path: p for p in anchors.scope_pushers(prog) if anchors.callback_param(p) is not None}
    for c in parent.calls():
        if c.is_ptr or c.res not in pushers:
            continue
        k = anchors.callback_param(pushers[c.res])
        if k - 1 >= len(c.args) or not mir.is_place_operand(c.args[k - 1]):
            continue
        cpa = parent.canon_op(c.args[k - 1])
        if cpa and cpa[0][0] == "agg":
            st = parent.stmts(cpa[0][1])[cpa[0][2]]
            if st[2][1].get("k") == "closure" and st[2][1].get("def") == clo.path:
                return pushers[c.res], c
    return None


def rule_R04_4(ctx):
    prog = ctx.prog
    r = RuleResult("R04.4", "every block is evaluated in a fresh scope pushed "
                   "on a clone of the chain",
                   "a block evaluated directly on the enclosing scope leaks "
                   "its declarations; a scope reused across iterations is "
                   "not fresh")
    ses = [f for f in prog.hand_fns() if not f.is_closure and not f.from_expansion
           and f.locals and "eval::Escape" in f.locals[0]
           and any(e == "ast::Stmt" for e in ops.arg_rooted_switches(f).values())]
    if not r.require_floor("statement evaluator", len(ses), 1):
        return r
    se = ses[0]
    # the sequence function: calls the statement evaluator in a loop
    seqs = [c.fn for c in prog.callers_of(se.path) if c.fn.in_any_loop(c.bb)]
    if not r.require_floor("statement sequence function", len(seqs), 1):
        return r
    seq = seqs[0].root_fn()
    callers = [c for c in prog.callers_of(seq.path)]
    r.inst("%s is called from %s" % (seq.path, sorted(set(c.fn.path for c in callers))))
    for c in callers:
        g = c.fn
        si = [i for i, t in enumerate(c.argtys) if anchors.is_chain_ty(prog, t)]
        if not si:
            r.unproven.append("%s: no scope-chain argument" % g.path)
            continue
        cp = g.canon_op(anchors.unwrap_carrier(prog, g, c.args[si[0]]))
        cp = tuple(p for p in cp if p not in ("&", "*"))
        ok = False
        if g.is_closure and cp and cp[0][0] == "arg" and len(cp) == 1:
            # the chain is the one a callback-style pusher lends to this
            # closure (`outer.with_new_scope(|scopes| ..)`)
            lend = _lent_by_pusher(prog, g, cp[0][1])
            if lend is not None:
                pf, pc = lend
                news = [x for x in pf.calls() if (x.res or "").endswith("HashMap::<K, V>::new")
                        and anchors.scope_map_path(prog) in (x.res_full or "")]
                others = [x for x in pf.calls() if anchors.scope_map_path(prog) in (x.res_full or "")
                          and (x.res or "").split("::")[-1] in ("insert", "extend", "entry", "from", "from_iter", "clone")]
                # one evaluation per lent chain: not inside a loop of the closure
                ok = len(news) == 1 and not others and not g.in_any_loop(c.bb)
                cp = "the chain lent by %s" % pf.path
        if not ok and cp and not isinstance(cp, str) and cp[0][0] == "call":
            cc = g.call_at(cp[0][1])
            if cc is not None and cc.res in {p.path for p in anchors.scope_pushers(prog)} \
                    and g.dominates(cc.bb, c.bb):
                # pushed scope is a fresh empty map
                fresh_map = False
                mi = [i for i, t in enumerate(cc.argtys) if t.startswith(anchors.scope_map_ty(prog))]
                if mi:
                    a1 = g.canon_op(cc.args[mi[0]])
                    if a1 and a1[0][0] == "call":
                        mc = g.call_at(a1[0][1])
                        fresh_map = mc is not None and (mc.res or "").endswith("HashMap::<K, V>::new")
                else:
                    # the pusher takes no map: it creates the (empty) scope itself
                    pf = prog.fns[cc.res]
                    news = [x for x in pf.calls() if (x.res or "").endswith("HashMap::<K, V>::new")
                            and anchors.scope_map_path(prog) in (x.res_full or "")]
                    others = [x for x in pf.calls() if anchors.scope_map_path(prog) in (x.res_full or "")
                              and (x.res or "").split("::")[-1] in ("insert", "extend", "entry", "from", "from_iter", "clone")]
                    fresh_map = len(news) == 1 and not others
                # fresh for every iteration: the push is inside every loop
                # that contains the evaluation
                per_iter = all(cc.bb in body for h, body in g.natural_loops().items() if c.bb in body)
                ok = fresh_map and per_iter
        r.inst("%s: runs the sequence on %s" % (g.path, "a freshly pushed scope" if ok else cp))
        if ok:
            r.ok()
        else:
            r.fail("%s | sequence on un-pushed chain" % g.path,
                   "%s evaluates a statement sequence on a chain that was not "
                   "extended by a fresh scope (new_from_push with an empty "
                   "map)" % g.path, where=c.loc)
    # new_from_push pushes exactly one new cell onto a clone
    pushers = anchors.scope_pushers(prog)
    if len(pushers) != 1:
        r.anchor_missing("the scope module's pushing constructor (today ScopeStack::new_from_push); found %s"
                         % [p.path for p in pushers])
    else:
        nfp = pushers[0]
        arcs = [c for c in nfp.calls() if (c.declared or "") == "std::sync::Arc::<T>::new"]
        pushes = [c for c in nfp.calls() if (c.res or "").endswith("::push")]
        if not pushes:
            # linked representation: the new node *is* the push
            pushes = list(arcs)
        clones = [c for c in nfp.calls() if (c.declared or "") == "std::clone::Clone::clone"
                  or (c.res or c.declared or "").split("::")[-1] in ("cloned", "to_vec", "extend_from_slice")]
        r.inst("new_from_push: %d push, %d Arc::new, %d clone" % (len(pushes), len(arcs), len(clones)))
        rets = [b for b in nfp.reachable() if nfp.term(b)["k"] == "return"]
        uncond = bool(pushes) and all(nfp.dominates(pushes[0].bb, b) for b in rets)
        if len(pushes) == 1 and len(arcs) == 1 and clones and not nfp.natural_loops() and uncond:
            r.ok()
        elif len(pushes) == 1 and not uncond:
            r.fail("new_from_push | push is conditional",
                   "new_from_push does not push a scope cell on every path: a "
                   "chain handed to a block (or captured by a closure) may "
                   "lack the block's own scope", where=pushes[0].loc)
        else:
            r.fail("new_from_push | shape push=%d arc=%d clone=%d" % (len(pushes), len(arcs), len(clones)),
                   "new_from_push must push exactly one new scope cell onto a clone of the chain")
    # producers of ScopeStack values in the evaluator
    prods = set()
    for f in prog.hand_fns():
        if f.from_expansion or f.module.startswith(__import__("anchors").scope_module(prog)):
            continue
        for c in f.calls():
            if c.is_ptr:
                continue
            if (c.dstty or "") == SCOPESTACK:
                prods.add((c.res or ""))
    r.inst("producers of scope chains outside the scope module: %s" % sorted(prods))
    allowed = {p.path for p in anchors.scope_pushers(prog)} | {p.path for p in anchors.scope_root_ctors(prog)} \
        | {"<eval::scope::ScopeStack as std::clone::Clone>::clone"}
    extra = set()
    for pth in prods - allowed:
        gfn = prog.fns.get(pth)
        # a producer that only re-wraps a clone of the chain (no push, no new
        # scope cell) cannot add or drop scopes
        if gfn is not None and gfn.full and not any(
                (c.res or "").split("::")[-1] in ("push", "pop", "truncate", "remove", "insert", "drain", "clear")
                or (c.declared or "") == "std::sync::Arc::<T>::new" for c in gfn.calls()):
            continue
        extra.add(pth)
    if not extra:
        r.ok()
    else:
        r.fail("scope-chain producers=%s" % ",".join(sorted(extra)),
               "scope chains are produced by %s" % sorted(extra))
    roots = []
    for rc in anchors.scope_root_ctors(prog):
        roots += [c for c in prog.callers_of(rc.path) if not c.fn.module.startswith(anchors.scope_module(prog))]
    r.inst("empty-root constructors %s called from %s" % ([p.path for p in anchors.scope_root_ctors(prog)],
                                                          sorted(c.fn.path for c in roots)))
    if all(c.fn.module == "" for c in roots):
        r.ok()
    else:
        r.fail("ScopeStack::new called in evaluator",
               "an empty chain is created inside the evaluator: %s" % sorted(c.fn.path for c in roots))
    return r


def rule_R04_5(ctx, rule_id="R04.5"):
    prog = ctx.prog
    r = RuleResult(rule_id, "name lookup and assignment search the chain from "
                   "the innermost scope outwards",
                   "searching outermost-first resolves a shadowed name to the "
                   "outer binding: an inner declaration would not shadow")
    pushers = anchors.scope_pushers(prog)
    appends = anchors.pusher_appends(prog)
    if not pushers or not appends:
        r.unproven.append("the pushing constructor does not append to a Vec: "
                          "iteration direction not decidable by this rule")
        return r
    sm = anchors.scope_module(prog)
    n = 0
    for f in prog.hand_fns():
        if f.from_expansion or not f.module.startswith(sm):
            continue
        for c in f.calls():
            if c.is_ptr or not (c.declared or "").endswith("Iterator::next") or not f.in_any_loop(c.bb):
                continue
            a0 = c.argtys[0] if c.argtys else ""
            if "std::sync::Arc<std::sync::Mutex<" not in a0:
                continue      # not an iteration over the chain's cells
            n += 1
            rev = "std::iter::Rev<" in a0
            r.inst("%s iterates the chain %s" % (f.path, "innermost-first (reversed)" if rev else "outermost-first"))
            if rev:
                r.ok()
            else:
                r.fail("%s | chain searched outermost-first" % f.path,
                       "%s walks the scope chain from the outermost scope "
                       "(the pushing constructor appends, so the innermost "
                       "scope is last): a shadowing declaration is not found "
                       "first" % f.path, where=c.loc)
    r.require_floor("searches over the scope chain", n, 1)
    return r


def run(ctx):
    return [rule_R04_1(ctx), rule_R04_2(ctx), rule_R04_3(ctx), rule_R04_4(ctx), rule_R04_5(ctx)]


META = {
    "level": "other",
    "technique": "provenance of the scope-chain operands at function "
                 "creation and at body evaluation, type facts on the chain "
                 "representation, who-may-call/dominance on scope pushes",
    "trusted_base": ["rustc MIR", "Arc/Mutex sharing semantics",
                     "derive(Clone) on ScopeStack clones the Vec of Arcs"],
    "assumptions": ["innermost-first lookup order and the renaming law are "
                    "not decided"],
    "explanation": "Decides four structural necessary conditions of lexical "
                   "scoping: capture = clone of the current chain, scopes are "
                   "shared not copied, a body runs on its captured chain, and "
                   "every block gets a freshly pushed scope.",
}
