"""C15 — strings: exact escapes, interpolation equals concatenation,
Unicode-safe (the unit-discipline clause)."""
import mir
import prov
import units
from framework import RuleResult


def rule_R15_2(ctx):
    prog = ctx.prog
    r = RuleResult("R15.2", "`->len()` reports a byte length",
                   "a character count would disagree with byte indexing")
    pv = prov.Prov(prog, terminal=units.is_measure)
    n = 0
    for f in prog.hand_fns():
        if not f.module.startswith("builtins") or f.from_expansion:
            continue
        for c in f.calls():
            if c.is_ptr or not (c.res or "").endswith("value::new_int"):
                continue
            n += 1
            o = pv.origins(f, c.args[0], ())
            srcs = []
            bad = []
            for x in o:
                if x[0] == "call":
                    g = prog.fns.get(x[1])
                    cc = g.call_at(x[2]) if g is not None else None
                    if cc is not None and units.is_measure(cc):
                        srcs.append(cc.res)
                        if units.is_char_count(cc):
                            bad.append(cc)
            r.inst("%s: integer result measures %s" % (f.path, sorted(set(srcs))))
            if bad:
                r.fail("%s | length is a character count" % f.path,
                       "%s returns a character count as a length" % f.path, where=bad[0].loc)
            elif srcs:
                r.ok()
            else:
                r.unproven.append("%s: source of the integer result not resolved" % f.path)
    r.require_floor("builtin integer results", n, 1)
    return r


def run(ctx):
    return [units.rule_units(ctx, "R15.1"), rule_R15_2(ctx)]


META = {
    "level": "other",
    "technique": "whole-crate provenance of text offsets (byte vs character "
                 "units) from lexer through AST fields and the LALRPOP "
                 "transport to the evaluator's slicing sinks",
    "trusted_base": ["rustc MIR", "LALRPOP transports token payloads and "
                     "action results unchanged (bridge assumption)"],
    "assumptions": ["the escape table, `$`/brace scanning and "
                    "interpolation == concatenation are value-level results "
                    "of the scanner state machine and are not decided"],
    "explanation": "Decides the clause 'holds for arbitrary Unicode text "
                   "before, between, inside and after slots': every offset "
                   "used to slice the literal is a byte offset, and ->len() "
                   "is a byte length.",
}
