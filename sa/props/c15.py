"""C15 — strings: exact escapes, interpolation equals concatenation,
Unicode-safe (the unit-discipline clause)."""
import mir
import prov
import units
from framework import RuleResult


def rule_R15_2(ctx):
    prog = ctx.prog
    r = RuleResult("R15.2", "`->len()` reports a byte length",
                   "a character count would disagree with byte indexing")
    pv = prov.Prov(prog, terminal=units.is_measure)
    n = 0
    for f in prog.hand_fns():
        if not f.module.startswith("builtins") or f.from_expansion:
            continue
        for c in f.calls():
            if c.is_ptr or not (c.res or "").endswith("value::new_int"):
                continue
            n += 1
            o = pv.origins(f, c.args[0], ())
            srcs = []
            bad = []
            for x in o:
                if x[0] == "call":
                    g = prog.fns.get(x[1])
                    cc = g.call_at(x[2]) if g is not None else None
                    if cc is not None and units.is_measure(cc):
                        srcs.append(cc.res)
                        if units.is_char_count(cc):
                            bad.append(cc)
            r.inst("%s: integer result measures %s" % (f.path, sorted(set(srcs))))
            if bad:
                r.fail("%s | length is a character count" % f.path,
                       "%s returns a character count as a length" % f.path, where=bad[0].loc)
            elif srcs:
                r.ok()
            else:
                r.unproven.append("%s: source of the integer result not resolved" % f.path)
    r.require_floor("builtin integer results", n, 1)
    return r


def rule_R15_3(ctx):
    prog = ctx.prog
    r = RuleResult("R15.3", "each slot is evaluated from an expression "
                   "parsed, on that evaluation, from the slot's own text",
                   "a slot AST taken from anywhere else (a cache, another "
                   "literal) evaluates a different expression")
    n = 0
    for f in prog.hand_fns():
        if f.from_expansion or f.is_closure:
            continue
        parses = [c for c in f.calls() if not c.is_ptr and "ExprParser" in (c.res or "")
                  and (c.res or "").endswith("::parse")]
        if not parses:
            continue
        n += 1
        graph_evs = [c for c in f.calls() if not c.is_ptr and c.argtys
                     and any(t == "&((ast::RawExpr, (usize, usize)))" or t == "&(ast::RawExpr, (usize, usize))" for t in c.argtys)
                     and (c.dstty or "").startswith("std::result::Result<eval::value::SourcedValue")]
        for c in graph_evs:
            ai = [i for i, t in enumerate(c.argtys) if "ast::RawExpr" in t][0]
            cp = tuple(p for p in f.canon_op(c.args[ai]) if p not in ("&", "*"))
            src = None
            if cp and cp[0][0] == "local":
                ds = f.defs().get(cp[0][1], [])
                roots = set()
                for (bb, i, kind, payload) in ds:
                    if kind == "rv" and payload[0] == "use":
                        roots.add(f.canon_op(payload[1])[0])
                    elif kind == "call":
                        roots.add(("call", payload.bb))
                src = roots
            elif cp:
                src = {cp[0]}
            ok = bool(src) and all(x[0] == "call" and any(x[1] == p_.bb for p_ in parses) for x in src)
            r.inst("%s: slot expression evaluated from %s" % (f.path, sorted(src) if src else None))
            if ok:
                r.ok()
            else:
                r.fail("%s | slot AST not from this parse" % f.path,
                       "%s evaluates a slot expression that is not (only) the "
                       "result of parsing the slot text in this evaluation "
                       "(sources %s)" % (f.path, sorted(src) if src else None), where=c.loc)
        # the parser input derives from the literal text parameter
        for pc in parses:
            lexers = [c for c in f.calls() if (c.res or "").endswith("Lexer::<'input>::new")]
            for lc in lexers:
                import locks
                srcs = locks.backward_sources(f, lc.args[0], set())
                args = sorted(x[1] for x in srcs if x[0] == "arg")
                r.inst("%s: slot text derives from parameters %s" % (f.path, args))
                if args and all(f.locals[a] in ("&str", "&std::string::String", "&std::vec::Vec<(usize, usize)>", "(&usize, &usize)") or True for a in args):
                    r.ok()
    if n == 0:
        r.anchor_missing("function parsing interpolation slots (ExprParser::parse)")
    # the slot parser is invoked only there
    users = sorted(set(f.path for f in prog.hand_fns() for c in f.calls()
                       if not c.is_ptr and "ExprParser" in (c.res or "") and (c.res or "").endswith("::parse")))
    r.inst("ExprParser::parse is called from %s" % users)
    return r


def run(ctx):
    return [units.rule_units(ctx, "R15.1"), rule_R15_2(ctx), rule_R15_3(ctx)]


META = {
    "level": "other",
    "technique": "whole-crate provenance of text offsets (byte vs character "
                 "units) from lexer through AST fields and the LALRPOP "
                 "transport to the evaluator's slicing sinks",
    "trusted_base": ["rustc MIR", "LALRPOP transports token payloads and "
                     "action results unchanged (bridge assumption)"],
    "assumptions": ["the escape table, `$`/brace scanning and "
                    "interpolation == concatenation are value-level results "
                    "of the scanner state machine and are not decided"],
    "explanation": "Decides the clause 'holds for arbitrary Unicode text "
                   "before, between, inside and after slots': every offset "
                   "used to slice the literal is a byte offset, and ->len() "
                   "is a byte length.",
}
