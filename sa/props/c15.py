"""C15 — strings: exact escapes, interpolation equals concatenation,
Unicode-safe (the unit-discipline clause)."""
import re
import mir
import prov
import units
from framework import RuleResult


def _is_int_ctor(prog, c):
    """A value-module constructor taking one i64 (today value::new_int)."""
    import anchors
    g = prog.fns.get(c.res)
    return g is not None and g.module.startswith(anchors.value_module(prog)) \
        and g.arg_count == 1 and len(g.locals) > 1 and g.locals[1] == "i64" \
        and "SourcedValue" in g.locals[0]


def rule_R15_2(ctx):
    prog = ctx.prog
    r = RuleResult("R15.2", "`->len()` reports a byte length",
                   "a character count would disagree with byte indexing")
    pv = prov.Prov(prog, terminal=units.is_measure, foreign="stop")
    n = 0
    for f in prog.hand_fns():
        if not f.module.startswith("builtins") or f.from_expansion:
            continue
        for c in f.calls():
            if c.is_ptr or not _is_int_ctor(prog, c):
                continue
            n += 1
            o = pv.origins(f, c.args[0], ())
            srcs = []
            bad = []
            for x in o:
                if x[0] == "call":
                    g = prog.fns.get(x[1])
                    cc = g.call_at(x[2]) if g is not None else None
                    if cc is not None and units.is_measure(cc):
                        srcs.append(cc.res)
                        if units.is_char_count(cc):
                            bad.append(cc)
            r.inst("%s: integer result measures %s" % (f.path, sorted(set(srcs))))
            if bad:
                r.fail("%s | length is a character count" % f.path,
                       "%s returns a character count as a length" % f.path, where=bad[0].loc)
            elif srcs:
                r.ok()
            else:
                r.unproven.append("%s: source of the integer result not resolved" % f.path)
    r.require_floor("builtin integer results", n, 1)
    return r


def rule_R15_3(ctx):
    prog = ctx.prog
    r = RuleResult("R15.3", "each slot is evaluated from an expression "
                   "parsed, on that evaluation, from the slot's own text",
                   "a slot AST taken from anywhere else (a cache, another "
                   "literal) evaluates a different expression")
    pv = prov.Prov(prog, foreign="stop", field_based=False, follow_params=False)
    # the interpolation function: raises InterpolatedValueNotString
    fs = [f for f in prog.hand_fns() if not f.is_closure and not f.from_expansion
          and any(True for _ in f.aggregates("eval::error::Error", "InterpolatedValueNotString"))]
    if not r.require_floor("interpolation function", len(fs), 1):
        return r
    for f in fs:
        evs = [c for c in f.calls() if not c.is_ptr
               and any(__import__("anchors").mentions_expr(prog, t) and t.startswith("&") for t in c.argtys)
               and (c.dstty or "").startswith("std::result::Result<eval::value::SourcedValue")]
        if not evs:
            r.unproven.append("%s: no expression evaluation found" % f.path)
        for c in evs:
            ai = [i for i, t in enumerate(c.argtys) if __import__("anchors").mentions_expr(prog, t)][0]
            o = pv.origins(f, c.args[ai], ("*",))
            srcs = set()
            for x in o:
                if x[0] == "call":
                    srcs.add(x[3])
                elif x[0] == "param":
                    srcs.add("parameter %d of %s" % (x[2], x[1]))
                else:
                    srcs.add(x[0])
            parse_only = bool(srcs) and all(("Parser" in s_ and s_.endswith("::parse")) for s_ in srcs)
            r.inst("%s: slot expression comes from %s" % (f.path, sorted(srcs)))
            if parse_only:
                r.ok()
            else:
                bad = sorted(s_ for s_ in srcs if not ("Parser" in s_ and s_.endswith("::parse")))
                r.fail("%s | slot AST from %s" % (f.path, ",".join(x.split("::")[-1] for x in bad)[:60]),
                       "%s evaluates a slot expression that can come from %s "
                       "rather than from parsing the slot's own text in this "
                       "evaluation" % (f.path, bad), where=c.loc)
    return r


LOOKBACK_RE = re.compile(r"core::str::<impl str>::(ends_with|strip_suffix|rfind|trim_end_matches)::<(char|&str|&&str)>$")


def _is_backslash_const(op):
    if mir.is_place_operand(op):
        return False
    c = mir.op_const(op)
    v = c.get("v", c.get("pp"))
    return v in ("\\", "'\\'", '"\\"', "\\\\", 92) or (isinstance(v, str) and v.strip("'\"") in ("\\", "\\\\"))


def rule_R15_6(ctx):
    """Whether a character of a literal is escaped is the state of the
    scanner's machine (the transition taken on the `\\` before it).  It cannot
    be recovered by looking one character back at the text accumulated so
    far: after `\\\\` the last character is a backslash and the next one is
    *not* escaped.  Any `ends_with('\\')`-style look-back in the lexer decides
    escapedness by the wrong quantity (parity of a run, not its last item)."""
    prog = ctx.prog
    r = RuleResult("R15.6", "escapedness is carried by the scanner state, never "
                   "recovered from the previous character: the lexer has no "
                   "look-back test against `\\` on accumulated text",
                   "`\"..\\\\\"` ends at its second quote; a look-back test "
                   "takes that quote for an escaped one, so a nested literal "
                   "ending in an escaped backslash swallows the rest of the slot")
    n = 0
    for f in prog.hand_fns():
        if f.from_expansion or f.generated or not f.module.startswith("lexer"):
            continue
        for c in f.calls():
            if c.is_ptr or not LOOKBACK_RE.search(c.res_full or c.res or ""):
                continue
            n += 1
            if len(c.args) > 1 and _is_backslash_const(c.args[1]):
                r.fail("%s | escape decided by looking back for a backslash via %s"
                       % (f.path, (c.res or "").split("::")[-1].split("<")[0] or "ends_with"),
                       "%s tests the accumulated text for a trailing `\\` "
                       "to decide whether the current character is escaped; "
                       "that is wrong whenever the backslash is itself escaped"
                       % f.path, where=c.loc)
            else:
                r.ok()
    r.inst("suffix look-back calls in the lexer: %d" % n)
    if not n:
        r.ok()
    return r


def run(ctx):
    import c09
    r5 = c09.rule_R09_6(ctx, "R15.5")
    for v in r5.violations:
        v.key = v.key.replace("R09.6", "R15.5", 1)
    return [units.rule_units(ctx, "R15.1"), rule_R15_2(ctx), rule_R15_3(ctx), r5, rule_R15_6(ctx)]


META = {
    "level": "other",
    "technique": "whole-crate provenance of text offsets (byte vs character "
                 "units) from lexer through AST fields and the LALRPOP "
                 "transport to the evaluator's slicing sinks",
    "trusted_base": ["rustc MIR", "LALRPOP transports token payloads and "
                     "action results unchanged (bridge assumption)"],
    "assumptions": ["the escape table, `$`/brace scanning and "
                    "interpolation == concatenation are value-level results "
                    "of the scanner state machine and are not decided"],
    "explanation": "Decides the clause 'holds for arbitrary Unicode text "
                   "before, between, inside and after slots': every offset "
                   "used to slice the literal is a byte offset, and ->len() "
                   "is a byte length.",
}
