"""C13 — destructuring, spread and collect are inverse, lossless
rearrangements (arity domains, name-set and key bookkeeping, grammar)."""
import mir
import guards
import ops
from ops import ERR
from framework import RuleResult
import c11

MOD_MAIN = "__parse__Prog"


def _bmod(prog):
    import anchors
    return anchors.binder_module(prog)

EXPECT = {
    "ListDestructureItemMismatch": ("Ne", "lhs_len", "rhs_len"),
    "ListCollectTooFew": ("Gt", ("sub", "lhs_len", 1), "rhs_len"),
    "ArgNumMismatch": ("Ne", "need", "got"),
    "TooFewArgs": ("Gt", "minimum", "got"),
}
PAIRS = [("ListCollectTooFew", "ListDestructureItemMismatch"), ("TooFewArgs", "ArgNumMismatch")]


def _no_helpers(call):
    return False


def rule_R13_1(ctx):
    prog = ctx.prog
    r = c11.rule_guard_tables(ctx, "R13.1", EXPECT,
                              "arity: without collect exactly n items/"
                              "arguments, with collect at least n-1",
                              "a weaker or stronger count test binds "
                              "patterns to the wrong elements or rejects "
                              "valid destructurings/calls")
    # (the count tests may consult a small accessor — `params.arity()` — so
    # the remaining clauses read each function with such leaves inlined)
    import inline

    def leaf_sites(variant):
        for f0 in prog.hand_fns():
            if f0.from_expansion or not f0.module.startswith("eval") or inline.is_small_leaf(f0):
                continue
            fv = inline.view(prog, f0, pick=_no_helpers, leaves=True)
            for bb, i, pl, kd, aops, sp in fv.aggregates(c11.ERR, variant):
                yield fv, bb, kd, aops, sp

    def same_term(f, a, b):
        if a == b:
            return True
        if a and b and a[0] == "len" and b[0] == "len":
            ca, cb = f.call_at(a[1]), f.call_at(b[1])
            if ca is not None and cb is not None and ca.args and cb.args:
                return f.canon_op(ca.args[0]) == f.canon_op(cb.args[0])
        return False
    # TooFewArgs.minimum is (number of parameters) - 1
    for f, bb, kd, aops, sp in leaf_sites("TooFewArgs"):
        m = guards.field_terms(f, kd, aops).get("minimum")
        t = m
        if m and m[0] == "var":
            ds = f.defs().get(m[1], [])
            if len(ds) == 1 and ds[0][2] == "rv" and ds[0][3][0] == "use":
                t = guards.var_of(f, ds[0][3][1])
        need = set()
        for f2, b2, kd2, ao2, sp2 in leaf_sites("ArgNumMismatch"):
            if f2 is f:
                need.add(guards.field_terms(f2, kd2, ao2).get("need"))
        r.inst("%s: minimum = %s" % (f.path, guards.term_str(t) if t else None))
        # where does the collecting parameter live?  With a bool flag next to
        # the list it is the list's last element (minimum = len - 1); when the
        # selector is the *presence of an optional pattern* (`rest: Option<Box<Expr>>`)
        # it is stored apart from the list it is compared with (minimum = len)
        sel = guards.selector_guard_of(f, guards.guard_of(f, bb)[0]) if guards.guard_of(f, bb) else None
        apart = False
        if sel is not None and sel[2] and sel[2][0] == "call" and (sel[2][1] or "").endswith(("::is_some", "::is_none")):
            cs_ = f.call_at(sel[2][2])
            apart = cs_ is not None and bool(cs_.argtys) and "std::option::Option<" in cs_.argtys[0] \
                and "ast::RawExpr" in cs_.argtys[0]
        if apart and t and need and any(same_term(f, t, n_) for n_ in need):
            r.inst("%s: the collecting parameter is stored apart from the fixed ones (%s)" % (f.path, sel[2][1].split("::")[-1]))
            r.ok()
        elif t and t[0] == "sub" and t[2] == ("const", 1) and (any(same_term(f, t[1], n_) for n_ in need) or not need):
            r.ok()
        else:
            r.fail("%s | minimum is not params-1" % f.path,
                   "the minimum argument count with a collecting parameter "
                   "is %s, not (number of parameters - 1)" % (guards.term_str(t) if t else "?"),
                   where=mir.span_loc(sp))
    # the collect flag selects between the two tests
    for a, b in PAIRS:
        sa = list(leaf_sites(a))
        sb = list(leaf_sites(b))
        for (f, bba, *_), (f2, bbb, *_) in zip(sa, sb):
            if f is not f2:
                continue
            ga = guards.selector_guard_of(f, guards.guard_of(f, bba)[0]) if guards.guard_of(f, bba) else None
            gb = guards.selector_guard_of(f, guards.guard_of(f, bbb)[0]) if guards.guard_of(f, bbb) else None
            r.inst("%s: %s under flag=%s, %s under flag=%s" % (
                f.path, a, ga[1] if ga else None, b, gb[1] if gb else None))
            if ga and gb and ga[0] == gb[0] and ga[1] is True and gb[1] is False:
                r.ok()
            else:
                r.fail("%s | collect flag does not select %s/%s" % (f.path, a, b),
                       "the `at least n-1` test must apply exactly when the "
                       "pattern/parameter list collects, the `exactly n` test "
                       "otherwise", where=f.path)
    return r


def rule_R13_2(ctx):
    prog = ctx.prog
    r = RuleResult("R13.2", "one name set per pattern: nested binders pass "
                   "on the set they received; new sets are created only at "
                   "binding entry points",
                   "a fresh set inside a nested pattern lets a name repeat "
                   "across nesting levels")
    HS = "std::collections::HashSet<std::string::String>"
    import anchors
    # the set may travel inside a struct of the binder (`Binder{.., names_in_binding}`):
    # a value of such a *carrier* stands for the pattern's name set
    carriers = set()
    for path, a in prog.adts.items():
        if path.startswith(("std::", "core::", "alloc::")) or len(a.get("variants", [])) != 1:
            continue
        if any(fd["ty"] == HS for fd in a["variants"][0]["fields"]):
            carriers.add(path)

    def set_ty(t):
        import re as _re
        return t == "&mut " + HS or (_re.sub(r"'[a-z_]+ ", "", t).startswith("&mut ")
                                     and anchors._strip_ty(t) in carriers)
    # constructors of a carrier: functions that return one (they create its set)
    ctors = {f.path for f in prog.hand_fns() if not f.is_closure and not f.from_expansion and f.locals
             and anchors._strip_ty(f.locals[0]) in carriers and not f.locals[0].startswith("&")}
    n_new = 0
    for f in prog.hand_fns():
        if f.from_expansion or not f.module.startswith("eval"):
            continue
        takes_set = any(set_ty(f.locals[i]) for i in range(1, f.arg_count + 1))
        news = [c for c in f.calls() if (c.res or "").endswith("HashSet::<T>::new")
                and (c.dstty or "").startswith(HS)]
        if f.path in ctors:
            news = []          # counted at the constructor's call sites
        news += [c for c in f.calls() if not c.is_ptr and c.res in ctors]
        n_new += len(news)
        if takes_set:
            r.inst("%s takes the pattern's name set; creates %d new set(s)" % (f.path, len(news)))
            if news:
                r.fail("%s | creates a new name set" % f.path,
                       "%s receives the pattern's name set but creates a "
                       "fresh one: names bound through it are not checked "
                       "against the rest of the pattern" % f.path, where=news[0].loc)
            else:
                r.ok()
            # recursive binding calls pass the received set
            pi = [i for i in range(1, f.arg_count + 1) if set_ty(f.locals[i])][0]
            for c in f.calls():
                if c.is_ptr:
                    continue
                g = prog.fns.get(c.res)
                if g is None or not g.full or g.is_closure:
                    continue
                for i, t in enumerate(c.argtys):
                    if set_ty(t):
                        cp = tuple(p for p in f.canon_op(c.args[i]) if p not in ("&", "*"))
                        # (the carrier itself, or its set field)
                        if cp and cp[0] == ("arg", pi) and all(p[0] == "f" for p in cp[1:]):
                            r.ok()
                        else:
                            r.fail("%s | passes another name set to %s" % (f.path, g.path.split("::")[-1]),
                                   "%s calls %s with a name set that is not "
                                   "the one it received" % (f.path, g.path), where=c.loc)
    r.require_floor("name-set creation sites (binding entry points)", n_new, 2)
    return r


def rule_R13_3(ctx):
    prog = ctx.prog
    r = RuleResult("R13.3", "object destructuring removes every bound key "
                   "from the remaining set, and the collected rest is built "
                   "from exactly that set",
                   "a key not removed shows up again in `..rest`; a rest "
                   "built from anything else loses or duplicates properties")
    HS = "std::collections::HashSet<std::string::String>"
    found = 0
    for f in prog.hand_fns():
        if f.from_expansion or f.is_closure:
            continue
        sets = [i for i, t in enumerate(f.locals) if t == HS and i > f.arg_count]
        removes = [c for c in f.calls() if (c.res or "").endswith("::remove") and c.argtys and HS in c.argtys[0]]
        if not sets or not removes:
            continue
        found += 1
        # the set is initialised from the keys of the source object
        inits = []
        for s_ in sets:
            for (bb, i, kind, payload) in f.defs().get(s_, []):
                if kind == "call":
                    inits.append(payload.res)
        r.inst("%s: remaining-key set initialised by %s; %d removals" % (f.path, inits, len(removes)))
        # every call that binds one property is followed by a removal
        binders = [c for c in f.calls() if not c.is_ptr and prog.fns.get(c.res) is not None
                   and prog.fns[c.res].module.startswith(_bmod(prog)) and not prog.fns[c.res].is_closure
                   and any("BTreeMap" in t for t in c.argtys) and c.res != f.path
                   # (a helper that is handed the remaining set itself builds
                   # the rest object; it does not bind a property)
                   and not any(mir.is_place_operand(a) and HS in t
                               and any(f.canon_op(a)[0] == ("local", s_) or s_ in f.chain_locals(mir.op_place(a))
                                       for s_ in sets)
                               for a, t in zip(c.args, c.argtys))]
        for c in binders:
            # through the `?`: the Continue edge must reach a removal before the loop header
            ok = False
            reach = f.reach_from(c.bb)
            loop = None
            for h, body in f.natural_loops().items():
                if c.bb in body and (loop is None or len(body) < len(loop[1])):
                    loop = (h, body)
            # explore forward until loop header; success path must hit a removal
            seen = set()
            st = [(c.target, False)]
            all_paths_remove = True
            while st:
                bb, rem = st.pop()
                if bb is None or (bb, rem) in seen:
                    continue
                seen.add((bb, rem))
                cc = f.call_at(bb)
                if cc is not None and cc in removes or (cc is not None and any(cc.bb == x.bb for x in removes)):
                    rem = True
                if cc is not None and cc.declared == "std::ops::FromResidual::from_residual":
                    continue
                if f.term(bb)["k"] == "return":
                    continue
                if loop and bb == loop[0]:
                    if not rem:
                        all_paths_remove = False
                    continue
                for s2 in f.succs(bb):
                    st.append((s2, rem))
            r.inst("%s: after %s every continuing path removes the key: %s"
                   % (f.path, c.res.split("::")[-1], all_paths_remove))
            if all_paths_remove:
                r.ok()
            else:
                r.fail("%s | bound key not removed after %s" % (f.path, c.res.split("::")[-1]),
                       "a property bound through %s stays in the remaining "
                       "set on some path and would reappear in `..rest`"
                       % c.res, where=c.loc)
        if len(binders) < 2:
            r.fail("%s | property binders=%d" % (f.path, len(binders)),
                   "expected the shorthand and the `\"k\": pattern` arms to bind one property each")
        # rest object is built from iterating that set
        import inline
        fv = inline.view(prog, f)     # the copy loop may sit in a private helper
        iters = [c for c in fv.calls() if (c.res or "").endswith("HashSet::<T, S, A>::iter") or
                 ((c.res or "").split("::")[-1] in ("iter", "into_iter", "drain") and c.argtys and HS in c.argtys[0])]
        r.inst("%s: rest built from %d iteration(s) of the remaining set" % (f.path, len(iters)))
        if iters:
            r.ok()
        else:
            r.fail("%s | rest not built from remaining keys" % f.path,
                   "the collected rest object is not built from the remaining-key set")
    r.require_floor("object binder with remaining-key bookkeeping", found, 1)
    return r


def rule_R13_4(ctx):
    g = ctx.grammar
    r = RuleResult("R13.4", "grammar: a collect marker can only precede the "
                   "last item of a non-empty pattern/parameter list",
                   "collect on an empty list or a non-last item breaks the "
                   "arity arithmetic (n-1) the binders rely on")
    ups = g.user_productions(MOD_MAIN)
    if not r.require_floor("grammar productions", len(ups), 100):
        return r
    d = g.by_lhs(MOD_MAIN)
    OPEN = ('"("', '"["', '"{"')
    CLOSE = ('")"', '"]"', '"}"')
    COLLECT = '".."'

    def ends_with_comma(n, depth=0):
        """Can nonterminal n derive a string ending in ","?"""
        if depth > 4 or n not in d:
            return False
        for syms, act in d[n]:
            if syms and (syms[-1] == '","' or (not g.is_terminal(syms[-1]) and syms[-1] != n
                                              and ends_with_comma(syms[-1], depth + 1))):
                return True
        return False
    # every nonterminal incl. the macro-generated ones
    allp = {}
    for lhs, syms, act in g.productions(MOD_MAIN):
        if not lhs.startswith("__"):
            allp.setdefault(lhs, []).append(syms)
    d = {k: [(s_, None) for s_ in v] for k, v in allp.items()}
    carriers = set()
    n_sites = 0
    for lhs, prods in allp.items():
        if any('":"' in syms for syms in prods):
            continue      # object property items: `..rest` is placed by the binder's own check
        for syms in prods:
            for i_, s_ in enumerate(syms):
                if s_ != COLLECT or i_ + 1 >= len(syms) or g.is_terminal(syms[i_ + 1]):
                    continue
                prev = syms[i_ - 1] if i_ > 0 else None
                prefix_pos = prev is None or prev == '","' or prev in OPEN \
                    or (not g.is_terminal(prev) and ends_with_comma(prev))
                if not prefix_pos:
                    continue          # infix `a .. b` or postfix spread `x..`
                n_sites += 1
                rest = syms[i_ + 2:]
                r.inst("%s = %s" % (lhs, " ".join(syms)))
                if all(x == COLLECT for x in rest):
                    r.ok()
                    carriers.add(lhs)
                else:
                    r.fail("grammar | %s collect not before last item: %s" % (lhs, " ".join(syms)),
                           "in %s a `..` collect marker is followed by further symbols (%s): it is "
                           "not on the last item" % (lhs, " ".join(rest)))
    # a nonterminal that can end with a collected item must itself be last in
    # every list that uses it: no "," may follow it
    changed = True
    while changed:
        changed = False
        for lhs, prods in allp.items():
            for syms in prods:
                for i_, s_ in enumerate(syms):
                    if s_ not in carriers:
                        continue
                    rest = syms[i_ + 1:]
                    if not rest or all(x == COLLECT for x in rest):
                        if lhs not in carriers:
                            carriers.add(lhs)
                            changed = True
                    elif rest[0] in CLOSE or rest[0] == '"stmt_end"':
                        pass
                    elif '","' in rest or any((not g.is_terminal(x)) and ends_with_comma(x) for x in rest):
                        key = "grammar | list collect on non-last item: %s = %s" % (lhs, " ".join(syms))
                        if not any(v.key.endswith(key) for v in r.violations):
                            r.fail(key, "after %s (which can end with a collected `..item`) the "
                                   "production %s continues with another list item" % (s_, lhs))
    r.require_floor("productions with a prefix collect marker", n_sites, 2)
    return r


def rule_R13_5(ctx):
    import c20
    prog = ctx.prog
    r = RuleResult("R13.5", "an object pattern entry is looked up in the "
                   "source object unless its *key* is `_`: the discard test "
                   "of the property binder is on the looked-up key",
                   "skipping the lookup for another reason (e.g. a `_` "
                   "target) silently accepts a missing property")
    n = 0
    for f in c11.owner_fns(prog):
        if not f.module.startswith(_bmod(prog)) or f.is_closure or f.from_expansion:
            continue
        gets = [c for c in f.calls() if "BTreeMap" in (c.res_full or "") and (c.res or "").split("::")[-1] == "get"]
        errs = [1 for bb, i, pl, kd, ao, sp in f.aggregates(ERR, "PropNotFound")] \
            or [1 for h in prog.closures_of(f.path) if (ERR, "PropNotFound") in ops.constructs(prog, h)]
        if not gets or not errs:
            continue
        n += 1
        key = tuple(p for p in f.canon_op(gets[0].args[1]) if p not in ("&", "*"))
        tests = []
        for c in f.calls():
            d = c.declared or ""
            if d not in ("std::cmp::PartialEq::eq", "std::cmp::PartialEq::ne"):
                continue
            vals = []
            other = None
            for a in c.args:
                cp = f.canon_op(a)
                if cp[0][0] == "const" and cp[0][1] in ("'_'", '"_"'):
                    vals.append("_")
                else:
                    other = tuple(p for p in cp if p not in ("&", "*"))
            if vals:
                tests.append((c, other))
        r.inst("%s: looked-up key %s; discard tests on %s" % (f.path, key, [t[1] for t in tests]))
        for c, other in tests:
            # (a view may hold several inlined copies of the property binder:
            # each test is matched with the lookups that follow it)
            after = f.reach_from(c.bb)
            keys_after = {tuple(p for p in f.canon_op(g_.args[1]) if p not in ("&", "*"))
                          for g_ in gets if g_.bb in after and len(g_.args) > 1}
            if other == key or (c11.VIEW_MODE[0] and other in keys_after):
                r.ok()
            else:
                r.fail("%s | discard test not on the looked-up key" % f.path,
                       "%s skips the property lookup when %s is `_`, which is "
                       "not the key it looks up (%s): a missing property can "
                       "go unreported" % (f.path, other, key), where=c.loc)
        # every success exit is behind the lookup or behind the discard test
        if not tests:
            r.ok()
    r.require_floor("object property binder (lookup + PropNotFound)", n, 1)
    return r


def rule_R13_6(ctx):
    import c05
    r = c05.rule_R05_3(ctx)
    r.rule = "R13.6"
    r.title = ("a collected rest (`..rest` in a pattern or parameter list) and a "
               "spread result are fresh containers: every list/object value is "
               "built around a newly allocated cell")
    r.necessary_for = ("a rest that aliases the source list lets a write through "
                       "`rest` change the caller's list")
    for v in r.violations:
        v.rule = "R13.6"
        v.key = v.key.replace("R05.3", "R13.6", 1)
    return r


def rule_R13_7(ctx):
    import c20
    import anchors
    c20.BMOD[0] = anchors.binder_module(ctx.prog)
    c20.SMOD[0] = anchors.scope_module(ctx.prog)
    r = c20.rule_R20_5(ctx)
    r.rule = "R13.7"
    r.title = ("every name a pattern or parameter list binds is declared through "
               "the one binder path that checks for repeated names")
    r.necessary_for = ("a second declaration path (e.g. inserting parameters "
                       "straight into the scope map) accepts `fn(a, a)`")
    for v in r.violations:
        v.rule = "R13.7"
        v.key = v.key.replace("R20.5", "R13.7", 1)
    return r


def run(ctx):
    return [rule_R13_1(ctx), rule_R13_2(ctx), rule_R13_3(ctx), rule_R13_4(ctx), c11.with_views(rule_R13_5, ctx),
            rule_R13_6(ctx), rule_R13_7(ctx)]


META = {
    "level": "other",
    "technique": "guard-relation tables over the operands the arity errors "
                 "report, def-use of the per-pattern name set, path analysis "
                 "of the remaining-key bookkeeping, grammar production census",
    "trusted_base": ["rustc MIR", "LALRPOP's printed normal form"],
    "assumptions": ["the inverse laws ([p..] + rest == xs etc.) as value "
                    "equalities are not decided"],
    "explanation": "Decides the structural conditions behind lossless "
                   "destructuring: the arity tests, that one name set spans a "
                   "whole pattern, that bound keys leave the remaining set, "
                   "and that collect can only be last.",
}
