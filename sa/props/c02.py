"""C02 — evaluation never crashes (R02.1, R02.2, R02.3, R02.4, R02.5)."""
import itertools
import re

import mir
import locks
from framework import RuleResult

I64 = ("i64", "&i64", "&mut i64", "&&i64")
ARITH_TRAITS = ("std::ops::Add::add", "std::ops::Sub::sub", "std::ops::Mul::mul",
                "std::ops::Div::div", "std::ops::Rem::rem", "std::ops::Neg::neg",
                "std::ops::Shl::shl", "std::ops::Shr::shr",
                "std::ops::AddAssign::add_assign", "std::ops::SubAssign::sub_assign",
                "std::ops::MulAssign::mul_assign", "std::ops::DivAssign::div_assign",
                "std::ops::RemAssign::rem_assign")
PANICKY_I64 = re.compile(
    r"core::num::<impl i64>::(abs|pow|div_euclid|rem_euclid|isqrt|ilog|ilog2|"
    r"ilog10|strict_\w+|unchecked_\w+|next_multiple_of|div_floor|div_ceil)$")
ARITH_BINOPS = ("Add", "Sub", "Mul", "Div", "Rem", "Shl", "Shr",
                "AddWithOverflow", "SubWithOverflow", "MulWithOverflow",
                "AddUnchecked", "SubUnchecked", "MulUnchecked",
                "ShlUnchecked", "ShrUnchecked")

# exception 1 (DESIGN §4 R02.2): `-n` of production `"-" IntLiteral`; n is the
# payload of an IntLiteral token (parse::<i64> of an unsigned digit string), so
# it is non-negative and `-n` cannot overflow.
GENERATED_I64_ALLOWED = 1
# exceptions 2 and 3 (DESIGN §4 R02.5)
PANIC_EXCEPTIONS = {
    "lexer::Lexer::<'input>::next_int":
        "a non-empty ASCII digit string can only fail to parse with "
        "PosOverflow, which is handled",
    "eval::scope::ScopeStack::declare":
        "every ScopeStack the evaluator declares into was produced by "
        "new_from_push, so it has a last scope (cross-checked by R04.4)",
}


def _int_lexer_justified(prog, f):
    """Machine-checkable part of exception 2: the only fallible conversion in
    the function is the decimal `str::parse::<i64>`, and every call of the
    function is behind a successful `is_ascii_digit` test of the current
    character.  Returns (ok, what failed)."""
    convs = []
    import inline
    fv = inline.view(prog, f)      # the conversion may sit in a private helper
    for c in fv.calls():
        full = (c.res_full or "") + " " + (c.res or "")
        if "from_str_radix" in full or "parse::<" in full or "FromStr" in (c.declared or ""):
            convs.append(full.strip())
    if not convs:
        return False, "no integer conversion found"
    import re as _re
    bad = [x for x in convs if "from_str_radix" in x
           or not _re.search(r"parse::<[iu](8|16|32|64|128|size)>", x)]
    if bad:
        return False, "the literal is converted with %s, not a decimal str::parse of an integer type" % bad[0].split(" ")[0]
    for c in prog.callers_of(f.path):
        g = c.fn
        guarded = False
        for d in g.calls():
            if (d.res or "").endswith("is_ascii_digit") and d.target is not None \
                    and g.term(d.target)["k"] == "switch":
                info = g.switch_info(d.target)
                if info and info["kind"] == "bool":
                    t_true = info["otherwise"]
                    for v, tgt in info["cases"]:
                        if v is True:
                            t_true = tgt
                    t_false = dict((str(v), t) for v, t in info["cases"]).get("False")
                    if g.dominates(t_true, c.bb) and (t_false is None or t_true != t_false):
                        guarded = True
        if not guarded:
            return False, "%s calls it without an is_ascii_digit test of the first character" % g.path
    return True, ""


PANIC_EXCEPTION_CHECKS = {
    "lexer::Lexer::<'input>::next_int": _int_lexer_justified,
}


def closure_defs_in_args(f, c):
    out = []
    for a in c.args:
        k = mir.op_const(a)
        if k and "fn" in k:
            out.append(k["fn"])
        elif mir.is_place_operand(a):
            cp = f.canon(mir.op_place(a))
            if cp[0][0] == "agg":
                st = f.stmts(cp[0][1])[cp[0][2]]
                kd = st[2][1]
                if kd.get("k") == "closure":
                    out.append(kd["def"])
    return out


def call_lock_effect(prog, eff, f, c):
    out = set()
    if c.is_ptr:
        for p in prog.fnptr_targets(c):
            out |= eff.get(p, set())
        return out
    t = mir.mutex_locked_type(c)
    if t is not None:
        out.add(t)
    out |= eff.get(c.res, set())
    for d in closure_defs_in_args(f, c):
        out |= eff.get(d, set())
    return out


def rule_R02_1(ctx, restrict_fns=None, rule_id="R02.1"):
    prog = ctx.prog
    r = RuleResult(rule_id, "no MutexGuard<T> is held across a call that may "
                   "lock a Mutex<T> (descent into own children exempt)",
                   "a second try_lock on a held cell unwraps an Err: exit 101")
    base_eff = ctx.memo("lock_eff", lambda: locks.lock_effects(prog))
    eff, eff_by_op, site_variants = ctx.memo("lock_eff_refined",
                                             lambda: refined_effects(ctx, base_eff))
    acq = 0
    fns_with = 0
    for f in prog.hand_fns():
        if restrict_fns is not None and f.path not in restrict_fns:
            continue
        n_here = sum(1 for c in f.calls() if mir.mutex_locked_type(c))
        if n_here:
            fns_with += 1
        acq += n_here
        gf = locks.GuardFlow(f)
        if not gf.guards:
            continue
        for c in f.calls():
            held = gf.held_at(c.bb)
            if not held:
                continue
            e = call_lock_effect(prog, eff, f, c)
            if not e:
                continue
            for g in sorted(held):
                T = gf.guards[g]
                if T not in e:
                    continue
                name = c.res if not c.is_ptr else "<fn pointer>"
                inst = "%s: guard on %s held across %s" % (
                    f.path, locks.short_ty(T), name)
                # descent exemption
                srcs = set()
                for ai, a in enumerate(c.args):
                    aty = c.argtys[ai] if ai < len(c.argtys) else ""
                    # only arguments that can carry a Seed container matter
                    if not ("eval::value::" in aty or "std::sync::Mutex<" in aty
                            or "eval::scope::" in aty or aty == ""):
                        continue
                    srcs |= locks.backward_sources(f, a, set(held))
                if srcs and srcs <= {("guard", g)}:
                    r.inst(inst + " [descent into the guarded container's "
                           "own contents: exempt]")
                    r.ok()
                    continue
                r.inst(inst + " [CONFLICT]")
                r.fail("%s | held=Mutex<%s> callee=%s"
                       % (f.path, locks.short_ty(T), name),
                       "%s holds a MutexGuard on a %s cell across the call to "
                       "%s, which may try_lock a %s cell that is not derived "
                       "from the guarded contents (argument sources: %s); if "
                       "it is the same cell, try_lock().unwrap() panics"
                       % (f.path, locks.short_ty(T), name, locks.short_ty(T),
                          sorted(srcs)), where=c.loc)
    if restrict_fns is None:
        for v, e in sorted(eff_by_op.items()):
            r.notes.append("operator %s may lock %s" % (v, sorted(locks.short_ty(t) for t in e)))
        for (p, bb), vs in sorted(site_variants.items()):
            r.notes.append("operator call site in %s receives ops %s" % (p, sorted(vs)))
        # (a clean-up may centralise the locking in a few container helpers,
        # so the floor is a small positive control, not today's count of 40)
        r.require_floor("try_lock acquisitions", acq, 6)
        r.notes.append("%d try_lock acquisitions in %d functions" % (acq, fns_with))
    if not r.obligations:
        r.ok()
    return r


def refined_effects(ctx, base_eff):
    """Variant-indexed lock effect of the operator function: each of its call
    sites contributes only the effects of the BinaryOp variants that can reach
    the `op` argument there (DESIGN §4 R02.1)."""
    import ops
    import prov
    prog = ctx.prog
    cands = ops.find_operator_fn(prog)
    if len(cands) != 1:
        return base_eff, {}, {}
    ofn, op_p, _, _ = cands[0]
    pv = ctx.memo("prov", lambda: prov.Prov(prog))
    return locks.refined_lock_effects(prog, base_eff, ofn, op_p, pv, call_lock_effect)


def rule_R02_2(ctx):
    prog = ctx.prog
    r = RuleResult("R02.2", "no trapping arithmetic on Seed integers (i64)",
                   "an i64 +,-,*,/,%,neg outside checked_* panics on overflow "
                   "or a zero divisor")
    n_checked = 0
    gen_sites = []
    import prov as _prov
    pv = ctx.memo("prov_stop", lambda: _prov.Prov(prog, foreign="stop"))
    exempt_notes = []

    def literal_negation(f, operand):
        """Exception 1, semantic form: the negated value is, on every path,
        the payload of an integer-literal token, i.e. the result of the
        lexer's `str::parse::<i64>` of an unsigned digit string (so it is
        non-negative and `-n` cannot overflow)."""
        org = pv.origins(f, operand, ())
        if not org:
            return False
        for x in org:
            if x[0] != "call" or not x[3].endswith("str>::parse"):
                return False
            g = prog.fns.get(x[1])
            if g is None or not g.root_fn().module.startswith("lexer"):
                return False
        return True
    for f in prog.full_fns():
        sites = []
        exempt_locs = set()
        for bb, i, pl, rv, sp in f.assigns():
            if rv[0] == "un" and rv[1] == "Neg" and rv[3] in I64 and literal_negation(f, rv[2]):
                exempt_locs.add(mir.span_loc(sp))
                exempt_notes.append("%s at %s" % (f.path, mir.span_loc(sp)))
        for bb in range(len(f.blocks)):
            if f.is_cleanup(bb):
                continue
            t = f.term(bb)
            if t["k"] == "assert":
                kind = t["kind"]
                if kind.startswith("Overflow") or kind in (
                        "OverflowNeg", "DivisionByZero", "RemainderByZero"):
                    if any(x in I64 for x in t["optys"]) and not (
                            kind == "OverflowNeg" and mir.span_loc(t["span"]) in exempt_locs):
                        sites.append(("assert " + kind, mir.span_loc(t["span"])))
        for bb, i, pl, rv, sp in f.assigns():
            if rv[0] == "bin" and rv[1] in ARITH_BINOPS and rv[4] in I64:
                sites.append(("mir " + rv[1], mir.span_loc(sp)))
            if rv[0] == "un" and rv[1] == "Neg" and rv[3] in I64 \
                    and mir.span_loc(sp) not in exempt_locs:
                sites.append(("mir Neg", mir.span_loc(sp)))
        for c in f.calls():
            d = c.declared or ""
            if d in ARITH_TRAITS and any(a in I64 for a in c.argtys):
                sites.append(("operator impl %s" % c.res, c.loc))
            if PANICKY_I64.match(c.res or ""):
                sites.append(("panicking i64 method %s" % c.res, c.loc))
            if (c.res or "").startswith("core::num::<impl i64>::checked_"):
                n_checked += 1
        for bb, i, pl, rv, sp in f.assigns():
            for o in mir.rvalue_operands(rv):
                k = mir.op_const(o)
                if k and (k.get("fn") or "").startswith("core::num::<impl i64>::checked_"):
                    n_checked += 1      # referenced as a function value
        if f.generated:
            gen_sites.extend((f.path, s) for s in sites)
            continue
        # one report per (function, kind); MIR emits assert + op for one site
        by_kind = {}
        for what, loc in sites:
            base = what.replace("assert ", "").replace("mir ", "")
            base = re.sub(r"WithOverflow|Overflow\(|\)", "", base)
            by_kind.setdefault(base, (what, loc))
        for base, (what, loc) in sorted(by_kind.items()):
            r.inst("%s: %s" % (f.path, what))
            r.fail("%s | i64 %s" % (f.path, base),
                   "%s performs trapping arithmetic on an i64 (%s); every i64 "
                   "in this crate is a Seed integer, so a script can make it "
                   "overflow or divide by zero and abort the interpreter"
                   % (f.path, what), where=loc)
    # generated module: exactly the negated literal
    gen_fns = sorted(set(p for p, _ in gen_sites))
    r.inst("generated parser: i64 arithmetic in %s" % gen_fns)
    for n_ in exempt_notes:
        r.notes.append("exception 1: negation of an integer-literal token's payload (%s)" % n_)
    if not gen_fns:
        r.ok()
    else:
        r.fail("parser | i64 arithmetic sites=%d" % len(gen_fns),
               "the generated parser module contains i64 arithmetic other "
               "than the negated integer literal: %s" % gen_sites[:4])
    r.require_floor("checked_* i64 primitives (anchor that i64 arithmetic is "
                    "visible)", n_checked, 1)
    r.ok()
    return r


PANIC_CALLEES = re.compile(
    r"^(core::panicking::\w+|std::rt::begin_panic\w*|std::rt::panic_fmt|"
    r"std::option::Option::<T>::(unwrap|expect)|"
    r"std::result::Result::<T, E>::(unwrap|expect|unwrap_err|expect_err)|"
    r"core::option::unwrap_failed|core::option::expect_failed|"
    r"core::result::unwrap_failed)$")


def rule_R02_5(ctx):
    prog = ctx.prog
    r = RuleResult("R02.5", "explicit panic sites are dead arms or reviewed "
                   "exceptions", "a reachable panic!/unwrap/expect aborts "
                   "the interpreter")
    total = 0
    for f in prog.hand_fns():
        if f.from_expansion:
            continue
        sites = []
        for c in f.calls():
            if c.is_ptr or not PANIC_CALLEES.match(c.res or ""):
                continue
            # unwrap of a try_lock result is R02.1's business
            if "unwrap" in c.res and c.args and mir.is_place_operand(c.args[0]):
                cp = f.canon(mir.op_place(c.args[0]))
                if cp[0][0] == "call":
                    src = f.call_at(cp[0][1])
                    if src is not None and mir.mutex_locked_type(src):
                        continue
            sites.append(c)
        if not sites:
            continue
        # dead-arm discharge: relational variant flow over every enum place
        # rooted at a parameter that this function switches on
        tracked = {}
        for bb in range(len(f.blocks)):
            if f.is_cleanup(bb) or f.term(bb)["k"] != "switch":
                continue
            info = f.switch_info(bb)
            if info and info["kind"] == "discr":
                cp = f.canon(info["place"])
                if cp[0][0] == "arg" and prog.enum_variant_names(info["enum"]):
                    tracked[cp] = info["enum"]
        vf = None
        size = 1
        for cp, e in tracked.items():
            size *= len(prog.enum_variant_names(e))
        if tracked and size <= 20000:
            vf = mir.VariantFlow(f, sorted(tracked.items()))
        for c in sites:
            total += 1
            dead = vf is not None and not vf.at(c.bb)
            if dead:
                r.inst("%s: %s — dead arm (no variant combination reaches it)"
                       % (f.path, c.res))
                r.ok()
            elif f.path in PANIC_EXCEPTIONS:
                chk = PANIC_EXCEPTION_CHECKS.get(f.path)
                ok_, why_ = chk(prog, f) if chk else (True, "")
                if ok_:
                    r.inst("%s: %s — reviewed exception: %s"
                           % (f.path, c.res, PANIC_EXCEPTIONS[f.path]))
                    r.ok()
                else:
                    r.inst("%s: %s — reviewed exception NO LONGER JUSTIFIED: %s" % (f.path, c.res, why_))
                    r.fail("%s | panic arm no longer justified" % f.path,
                           "the panic in %s was accepted because %s; that "
                           "argument no longer applies (%s), so some input "
                           "may now reach the panic" % (f.path, PANIC_EXCEPTIONS[f.path], why_),
                           where=c.loc)
            else:
                r.inst("%s: %s — UNREVIEWED" % (f.path, c.res))
                r.unproven.append("%s calls %s at %s (not provably dead, not "
                                  "a reviewed exception)" % (f.path, c.res, c.loc))
    # Fewer explicit panics is never a violation (a clean-up may remove dead
    # arms altogether), so there is no floor on hand-written sites; the
    # vacuity guard is a positive control instead: the recogniser must match
    # somewhere in the crate, generated and macro-expanded code included.
    control = sum(1 for f in prog.fns.values() if f.full for c in f.calls()
                  if not c.is_ptr and PANIC_CALLEES.match(c.res or ""))
    r.inst("hand-written explicit panic sites: %d; recogniser control (whole crate): %d" % (total, control))
    r.require_floor("panic-callee recogniser matches in the crate (positive control)", control, 1)
    return r


def rule_R02_6(ctx, rule_id="R02.6"):
    """Pre-sizing an allocation from a Seed integer (rather than from the
    length of an existing container) aborts with `capacity overflow` for large
    values even when the resulting container would be small or empty."""
    import guards
    prog = ctx.prog
    r = RuleResult(rule_id, "allocation sizes come from existing lengths or "
                   "constants, never straight from script integers",
                   "`with_capacity(n)` with n computed from a script integer "
                   "panics (capacity overflow) for large n")
    n = 0
    for f in prog.hand_fns():
        if f.from_expansion:
            continue
        for c in f.calls():
            if c.is_ptr:
                continue
            name = (c.res or "").split("::")[-1]
            if name not in ("with_capacity", "reserve", "reserve_exact", "resize", "resize_with") \
                    or not (c.res or "").startswith(("std::vec::Vec", "std::string::String", "std::collections::")):
                continue
            n += 1
            size_arg = c.args[0] if name == "with_capacity" else (c.args[1] if len(c.args) > 1 else None)
            if size_arg is None:
                continue
            t = guards.var_of(f, size_arg)
            srcs = locks_sources(f, size_arg)
            from_int = [x for x in srcs if x]
            r.inst("%s: %s(%s)" % (f.path, name, guards.term_str(t)))
            if from_int:
                r.fail("%s | allocation sized from a script integer" % f.path,
                       "%s calls %s with a size derived from %s, an integer "
                       "supplied by the script; a large value aborts the "
                       "interpreter" % (f.path, name, from_int[0]), where=c.loc)
            else:
                r.ok()
    if not n:
        r.ok()
    return r


def locks_sources(f, operand):
    """Calls in the backward slice of an operand that yield script integers
    (payloads of functions returning i64, or i64 arithmetic helpers)."""
    out = []
    seen = set()
    st = []
    if mir.is_place_operand(operand):
        st.append(mir.op_place(operand)[0])
    while st:
        l = st.pop()
        if l in seen or (1 <= l <= f.arg_count):
            continue
        seen.add(l)
        ty = f.locals[l] if l < len(f.locals) else ""
        for (bb, idx, kind, payload) in f.defs().get(l, []) + f.partial_defs().get(l, []):
            if kind == "call":
                c = payload
                name = (c.res or "").split("::")[-1]
                if name in ("len", "count", "capacity"):
                    continue        # an existing length: fine
                if "i64" in (c.dstty or "") or any(a in ("i64", "&i64") for a in c.argtys):
                    out.append(c.res)
                for a in c.args:
                    if mir.is_place_operand(a):
                        st.append(mir.op_place(a)[0])
            elif kind == "rv":
                for p in mir.rvalue_places(payload):
                    st.append(p[0])
        if ty in ("i64", "&i64"):
            out.append("a local of type i64")
    return out


def run(ctx):
    rs = [rule_R02_1(ctx), rule_R02_2(ctx), rule_R02_6(ctx)]
    import units
    rs.append(units.rule_units(ctx, "R02.3"))
    import sites
    rs.append(sites.rule_sites(ctx, "R02.4"))
    rs.append(rule_R02_5(ctx))
    return rs


META = {
    "level": "other",
    "technique": "MutexGuard typestate (guard liveness) x lock-effect "
                 "summaries over the resolved call graph; MIR census of "
                 "trapping i64 arithmetic; byte/char unit provenance; "
                 "dead-arm discharge of panic sites by variant dataflow",
    "trusted_base": ["rustc MIR construction and callee resolution",
                     "std's documented panics", "exceptions 1-3 (DESIGN §4)"],
    "assumptions": [
        "cyclic values (a container reachable from itself) are outside the "
        "property's domain: their traversal is unbounded (descent exemption)",
        "host stack/heap exhaustion, a closed stdout and LALRPOP runtime "
        "internals are not decided"],
    "explanation": "Decides the enumerable crash sources of safe Rust in the "
                   "evaluator: failed try_lock (guard held across a locking "
                   "call), trapping i64 arithmetic, char-count offsets at "
                   "byte-slice sinks, explicit panics. obligations = sites "
                   "analysed, discharged = proven safe. It does not decide "
                   "termination or resource exhaustion.",
}
