"""C07 — break/continue/return reach exactly their target."""
import mir
import ops
from framework import RuleResult

ESC = "eval::Escape"
STMT = "ast::Stmt"
ESC_VARIANTS = ["None", "Break", "Continue", "Return"]


def is_esc_carrier(ty):
    return ESC in ty and not ty.startswith("&")


def stmt_evaluators(prog):
    out = []
    for f in prog.hand_fns():
        if f.is_closure or f.from_expansion:
            continue
        if not f.locals or ESC not in f.locals[0]:
            continue      # an evaluator yields an Escape; AST walkers do not
        sw = ops.arg_rooted_switches(f)
        paths = [cp for cp, e in sw.items() if e == STMT]
        if paths:
            out.append((f, paths[0]))
    return out


def always_err(g):
    """Every value g returns is an `Err(..)` it builds itself (error-wrapping
    helpers such as `new_loc_err<T>(loc, e) -> Result<T>`)."""
    if not g.full or not g.locals or not g.locals[0].startswith("std::result::Result<"):
        return False
    defs0 = g.defs().get(0, [])
    if not defs0:
        return False
    for (bb, i, kind, payload) in defs0:
        if kind != "rv" or payload[0] != "agg" or payload[1].get("adt") != "std::result::Result" \
                or payload[1].get("variant") != "Err":
            return False
    return True


class EscapeUse:
    """One escape value inside a function: the set of locals it travels
    through (moves), where it is switched on, forwarded, passed or dropped."""

    def __init__(self, f, root, origin):
        self.f = f
        self.root = root
        self.origin = origin      # description
        self.aliases = {root}
        changed = True
        while changed:
            changed = False
            for bb, i, pl, rv, sp in f.assigns():
                if rv[0] == "use" and mir.is_place_operand(rv[1]):
                    src = mir.op_place(rv[1])
                    if not src[1] and src[0] in self.aliases and not pl[1] \
                            and pl[0] not in self.aliases and pl[0] != 0 \
                            and f.locals[pl[0]] == ESC:
                        self.aliases.add(pl[0])
                        changed = True
        self.switches = []
        self.forwards = []
        self.passed = []
        self.field_reads = []
        for bb in range(len(f.blocks)):
            if f.is_cleanup(bb):
                continue
            for i, s in enumerate(f.stmts(bb)):
                if s[0] != "=":
                    continue
                rv = s[2]
                if rv[0] == "discr" and rv[1][0] in self.aliases:
                    info = f.switch_info(bb) if f.term(bb)["k"] == "switch" else None
                    if info and info["kind"] == "discr" and info["place"][0] in self.aliases:
                        self.switches.append(bb)
                elif rv[0] == "agg":
                    for o in rv[2]:
                        if mir.is_place_operand(o) and mir.op_place(o)[0] in self.aliases \
                                and not mir.op_place(o)[1]:
                            self.forwards.append((bb, i, rv[1]))
                else:
                    for p in mir.rvalue_places(rv):
                        if p[0] in self.aliases and p[1]:
                            self.field_reads.append((bb, i))
            t = f.term(bb)
            if t["k"] == "call":
                for a in t["args"]:
                    if mir.is_place_operand(a) and mir.op_place(a)[0] in self.aliases:
                        self.passed.append(bb)


def escape_sources(f):
    """Locals of type Escape that receive a value from outside the function:
    the Continue payload of a `?` on a call result, a direct call result, or a
    parameter."""
    out = []
    for n in range(1, f.arg_count + 1):
        if f.locals[n] == ESC:
            out.append((n, "parameter %d" % n))
    for bb, i, pl, rv, sp in f.assigns():
        if pl[1] or f.locals[pl[0]] != ESC or pl[0] == 0:
            continue
        if rv[0] == "use" and mir.is_place_operand(rv[1]):
            src = mir.op_place(rv[1])
            if src[1]:
                # projection out of a carrier (ControlFlow / Result payload)
                if is_esc_carrier(f.locals[src[0]]) and f.locals[src[0]] != ESC:
                    c = ops.try_chain_source(f, rv[1])
                    out.append((pl[0], "payload of %s" % (c.res if c else "?")))
    for c in f.calls():
        if c.dst and not c.dst[1] and c.dst[0] != 0 and f.locals[c.dst[0]] == ESC:
            out.append((c.dst[0], "result of %s" % c.res))
    return out


def innermost_loop(f, bb):
    best = None
    for h, body in f.natural_loops().items():
        if bb in body and (best is None or len(body) < len(best[1])):
            best = (h, body)
    return best


def _resolve_on_path(f, op, path, depth=0):
    """Canonical path of an operand, resolving multi-definition locals by the
    definition that lies on the current control path."""
    if not mir.is_place_operand(op) or depth > 8:
        return f.canon_op(op)
    pl = mir.op_place(op)
    if pl[1]:
        return f.canon_op(op)
    l = pl[0]
    if f.single_def(l) is not None or 1 <= l <= f.arg_count:
        cp = f.canon_op(op)
        if cp[0][0] == "local" and cp[0][1] != l:
            return _resolve_on_path(f, ["cp", [cp[0][1], []]], path, depth + 1) + tuple(cp[1:])
        return cp
    ds = [d for d in f.defs().get(l, []) if d[0] in path]
    if len(ds) >= 1:
        bb, idx, kind, payload = max(ds, key=lambda d: path.index(d[0]))
        if kind == "rv" and payload[0] == "use":
            return _resolve_on_path(f, payload[1], path, depth + 1)
        if kind == "rv" and payload[0] == "agg":
            return (("agg", bb, idx),)
        if kind == "call":
            return (("call", bb),)
    return f.canon_op(op)


def _project_agg(f, cp, path, depth=0):
    """`(agg as V).i` -> the operand the aggregate was built from (an escape
    that travelled inside another enum, `LoopStep::Exit(escape)`)."""
    while depth < 6 and cp and cp[0][0] == "agg" and len(cp) >= 2:
        stt = f.stmts(cp[0][1])[cp[0][2]]
        kd, aops = stt[2][1], stt[2][2]
        rest = list(cp[1:])
        if rest and rest[0][0] == "d":
            if rest[0][1] != kd.get("variant"):
                return cp
            rest = rest[1:]
        if not rest or rest[0][0] != "f" or rest[0][1] >= len(aops):
            return cp
        cp = _resolve_on_path(f, aops[rest[0][1]], path, depth + 1) + tuple(rest[1:])
        depth += 1
    return cp


def outcomes(f, use, start, loop, variant=None):
    """Set of outcome labels for control entering `start`."""
    hdr, body = loop if loop else (None, None)
    res = set()
    budget = [20000]

    def classify_ok(o, path):
        if mir.is_place_operand(o) and mir.op_place(o)[0] in use.aliases \
                and not mir.op_place(o)[1]:
            return "return-same"
        cp = _project_agg(f, _resolve_on_path(f, o, path), path)
        if cp[0][0] == "agg":
            stt = f.stmts(cp[0][1])[cp[0][2]]
            kd = stt[2][1]
            if kd.get("adt") == ESC:
                return "return-" + kd["variant"].lower()
            return "ok-value"
        for a in use.aliases:
            ac = f.canon([a, []])
            if cp[:len(ac)] == ac:
                rest = cp[len(ac):]
                if not rest:
                    return "return-same"
                if ("d", "Return") in rest:
                    return "ok-return-value"
        if cp[0][0] == "local" and cp[0][1] in use.aliases and not cp[1:]:
            return "return-same"
        if any(p == ("d", "Return") for p in cp) and cp[0][0] == "local" \
                and cp[0][1] in use.aliases:
            return "ok-return-value"
        if any(p == ("d", "Return") for p in cp) and cp[0][0] == "arg" \
                and cp[0][1] in use.aliases:
            return "ok-return-value"
        return "ok-value"

    flags = mir.flag_locals(f)

    def go(bb, exited, more, path, env=None):
        env = mir.flag_transfer(f, flags, bb, env or {}) if flags else {}
        budget[0] -= 1
        if budget[0] < 0:
            res.add("unresolved")
            return
        if bb in path:
            return
        if hdr is not None and bb == hdr and not exited:
            res.add("loop-continue" + ("+evaluates-more" if more else ""))
            return
        if body is not None and bb not in body:
            exited = True
        path = path + (bb,)
        label = None
        for s in f.stmts(bb):
            if s[0] == "=" and s[1][0] == 0 and not s[1][1]:
                rv = s[2]
                if rv[0] == "agg" and rv[1].get("adt") == "std::result::Result":
                    if rv[1]["variant"] == "Err":
                        label = "err"
                    else:
                        label = classify_ok(rv[2][0], path)
                else:
                    label = "ret-other"
        t = f.term(bb)
        if label is None and t["k"] == "call" and t["dst"][0] == 0:
            c = f.call_at(bb)
            if c.declared == "std::ops::FromResidual::from_residual":
                label = "err-propagated"
            else:
                g = f.prog.fns.get(c.res) if not c.is_ptr else None
                if g is not None and g.is_closure:
                    label = "err"    # new_loc_err-style closure
                elif g is not None and always_err(g):
                    label = "err"    # a shared `new_loc_err(loc, e) -> Result<T>` helper
                else:
                    label = "ret-call"
        if label is not None:
            pre = "loop-exit:" if (exited and body is not None and label.startswith("return-")
                                   and label != "return-same") else ""
            res.add(pre + label)
            return
        if t["k"] == "return":
            res.add("return-unset")
            return
        if t["k"] == "call" and is_esc_carrier(t.get("dstty", "")):
            more = True
        if t["k"] == "switch" and variant is not None:
            info = f.switch_info(bb)
            if info and info["kind"] == "discr" and info["place"][0] in use.aliases \
                    and not info["place"][1]:
                # a later test of the same escape: only the edge of the
                # variant under consideration is feasible
                tgt = dict(info["cases"]).get(variant, info["otherwise"])
                go(tgt, exited, more, path, env)
                return
        for s2 in (mir.flag_edges(f, flags, bb, env) if flags else f.succs(bb)):
            go(s2, exited, more, path, env)
    go(start, False, False, ())
    return res


def table_of(f, use, sbb):
    info = f.switch_info(sbb)
    loop = innermost_loop(f, sbb)
    tab = {}
    targets = dict(info["cases"])
    for v in ESC_VARIANTS:
        tgt = targets.get(v, info["otherwise"])
        tab[v] = outcomes(f, use, tgt, loop, v)
    return tab, loop


T_LOOP = {"None": {"loop-continue"}, "Continue": {"loop-continue"},
          "Break": {"loop-exit:return-none"}, "Return": {"return-same"}}
T_SEQ = {"None": {"loop-continue"}, "Continue": {"return-same"},
         "Break": {"return-same"}, "Return": {"return-same"}}


def fmt(tab):
    return {k: sorted(v) for k, v in tab.items()}


def _no_helpers(call):
    return False


def rule_R07(ctx):
    prog = ctx.prog
    r1 = RuleResult("R07.1", "no escape value is dropped un-inspected",
                    "a dropped escape swallows a break/continue/return")
    r2 = RuleResult("R07.2", "loop statements: break ends the loop, continue "
                    "and none go on, return is passed up unchanged",
                    "any other mapping makes break/continue/return miss its target")
    r3 = RuleResult("R07.3", "blocks, if/else arms and the statement "
                    "sequence forward an inner escape unchanged; the sequence "
                    "stops at the first escape", "an arm that does not "
                    "forward swallows the escape; a sequence that goes on "
                    "runs statements after a break/return")
    r4 = RuleResult("R07.4", "call boundary: return value -> call value, "
                    "falling off the end -> null, break/continue -> error",
                    "otherwise a return value is lost or a loop escape "
                    "crosses a function call")
    r5 = RuleResult("R07.5", "program boundary: every escape at top level is "
                    "an error", "otherwise a stray return/break ends the "
                    "script silently")
    ses = stmt_evaluators(prog)
    if not r2.require_floor("statement evaluator (switch on a Stmt parameter)", len(ses), 1):
        return [r1, r2, r3, r4, r5]
    se, se_path = ses[0]
    import inline
    sev = inline.view(prog, se, pick=_no_helpers, classifiers=True)
    se_vf = mir.VariantFlow(sev, [(se_path, STMT)])

    def arms(bb):
        return {t[0] for t in se_vf.at(bb)}
    # helpers called only from the statement evaluator inherit the arm(s) of
    # their call sites (e.g. a while arm extracted into its own function)
    helper_ctx = {}
    for g in prog.hand_fns():
        if g is se or g.is_closure or g.from_expansion:
            continue
        cs = prog.callers_of(g.path)
        if cs and all(c.fn is se for c in cs):
            a = set()
            for c in cs:
                a |= arms(c.bb)
            if a and len(a) <= 2:
                helper_ctx[g.path] = a
    seq_fns = {c.fn.root_fn().path for c in prog.callers_of(se.path) if c.fn.in_any_loop(c.bb)}

    def ctx_arms(f, bb):
        if f is sev:
            return arms(bb)
        return helper_ctx.get(f.root_fn().path, set())
    n_sources = 0
    call_boundaries = 0
    prog_boundaries = 0
    seq_tables = 0
    import inline
    for f0 in prog.hand_fns():
        if f0.from_expansion or not any(t == ESC or is_esc_carrier(t) for t in f0.locals):
            continue
        if inline.is_classifier(f0) and prog.callers_of(f0.path):
            # `loop_step(Escape) -> LoopStep`: its decision is part of each
            # caller's table (inlined below), not a boundary of its own
            r1.inst("%s: classifier, analysed inside its callers" % f0.path)
            continue
        f = inline.view(prog, f0, pick=_no_helpers, classifiers=True)
        if f0 is se:
            f = sev
        for (root, origin) in escape_sources(f):
            n_sources += 1
            u = EscapeUse(f, root, origin)
            where = "%s: escape from %s" % (f.path, origin)
            if not u.switches and not u.forwards and not u.passed:
                r1.inst(where + " -> DROPPED")
                ctxs = sorted(arms(sev.defs()[root][0][0])) if f is sev and sev.defs().get(root) else []
                r1.fail("%s | escape-dropped from=%s arms=%s" % (f.path, origin.split(" ")[-1], ",".join(ctxs)),
                        "%s obtains an escape (%s) and drops it without "
                        "looking at it: a break/continue/return raised "
                        "inside is swallowed" % (f.path, origin),
                        where=f.path)
                continue
            r1.inst(where + " -> %s" % ("switched" if u.switches else "forwarded" if u.forwards else "passed on"))
            r1.ok()
            if not u.switches:
                # forwarded: must be returned as is
                fw_ok = any(kd.get("adt") == "std::result::Result" and kd["variant"] == "Ok"
                            for (_, _, kd) in u.forwards) or u.passed
                if f is sev or f.root_fn().path in helper_ctx:
                    a = set()
                    for (bb, _, _) in u.forwards:
                        a |= ctx_arms(f, bb)
                    r3.inst("%s [%s]: forwarded unchanged" % (f.path, ",".join(sorted(a))))
                    if a & {"While", "For"}:
                        r2.fail("%s | loop-arm forwards escape arms=%s" % (f.path, ",".join(sorted(a))),
                                "a loop statement returns its body's escape "
                                "without interpreting break/continue")
                    elif fw_ok:
                        r3.ok()
                else:
                    r3.inst("%s: forwarded unchanged" % f.path)
                    if fw_ok:
                        r3.ok()
                continue
            roots = [b for b in u.switches
                     if not any(o != b and f.dominates(o, b) for o in u.switches)]
            for sbb in roots:
                tab, loop = table_of(f, u, sbb)
                desc = "%s: table %s" % (f.path, fmt(tab))
                flat = {k: v for k, v in tab.items()}
                if f is sev or f.root_fn().path in helper_ctx:
                    a = ctx_arms(f, sbb)
                    if a and a <= {"While", "For"}:
                        r2.inst(desc + " [%s]" % ",".join(sorted(a)))
                        for v in ESC_VARIANTS:
                            if flat[v] == T_LOOP[v]:
                                r2.ok()
                            else:
                                r2.fail("%s | arm=%s escape=%s outcome=%s"
                                        % (f.path, ",".join(sorted(a)), v, ",".join(sorted(flat[v]))),
                                        "in a %s loop an inner %s must lead to "
                                        "%s, found %s" % ("/".join(sorted(a)), v,
                                                          sorted(T_LOOP[v]), sorted(flat[v])),
                                        where=f.path)
                        continue
                    r3.inst(desc + " [%s]" % ",".join(sorted(a)))
                    r3.fail("%s | unexpected escape table arms=%s" % (f.path, ",".join(sorted(a))),
                            "a non-loop statement arm interprets an escape "
                            "instead of forwarding it: %s" % fmt(tab))
                    continue
                kinds = set().union(*flat.values())
                if flat["None"] <= {"ok-value"} and flat["Return"] <= {"ok-value", "ok-return-value"} \
                        and "err" not in flat["Return"] and flat["Return"]:
                    # call boundary
                    call_boundaries += 1
                    r4.inst(desc)
                    exp = {"None": {"ok-value"}, "Return": {"ok-return-value"},
                           "Break": {"err"}, "Continue": {"err"}}
                    for v in ESC_VARIANTS:
                        if flat[v] == exp[v]:
                            r4.ok()
                        else:
                            r4.fail("%s | call-boundary escape=%s outcome=%s"
                                    % (f.path, v, ",".join(sorted(flat[v]))),
                                    "at a function-call boundary %s must give "
                                    "%s; found %s" % (v, sorted(exp[v]), sorted(flat[v])),
                                    where=f.path)
                    # None -> null value
                    info = f.switch_info(sbb)
                    tgt = dict(info["cases"]).get("None", info["otherwise"])
                    reach = f.reach_from(tgt)
                    nulls = [c for c in f.calls() if c.bb in reach and not c.is_ptr
                             and __import__("anchors").ctor_variants(prog, c.res) == {"Null"}]
                    if nulls:
                        r4.ok()
                    else:
                        r4.unproven.append("%s: value of a call that runs off its end not recognised as null" % f.path)
                elif all(flat[v] <= {"err"} and flat[v] for v in ("Break", "Continue", "Return")) \
                        and flat["None"] <= {"ok-value"}:
                    prog_boundaries += 1
                    r5.inst(desc)
                    r5.ok(4)
                elif loop is not None and f.root_fn().path in seq_fns:
                    seq_tables += 1
                    r3.inst(desc + " [sequence]")
                    for v in ESC_VARIANTS:
                        if flat[v] == T_SEQ[v]:
                            r3.ok()
                        else:
                            r3.fail("%s | sequence escape=%s outcome=%s"
                                    % (f.path, v, ",".join(sorted(flat[v]))),
                                    "in a statement sequence an inner %s must "
                                    "lead to %s, found %s" % (v, sorted(T_SEQ[v]), sorted(flat[v])),
                                    where=f.path)
                else:
                    r1.inst(desc + " [unclassified]")
                    r1.fail("%s | unclassified escape table %s" % (f.path, fmt(tab)),
                            "an escape is interpreted in a way that matches "
                            "no documented boundary: %s" % fmt(tab), where=f.path)
    r1.require_floor("escape values received (call payloads / parameters)", n_sources, 3)
    r4.require_floor("call-boundary tables", call_boundaries, 1)
    r5.require_floor("program-boundary tables", prog_boundaries, 1)
    r3.require_floor("statement-sequence tables", seq_tables, 1)
    # loop arms exist
    loops_in = {"While": 0, "For": 0}
    for h, body in se.natural_loops().items():
        a = arms(h)
        for k in loops_in:
            if a == {k}:
                loops_in[k] += 1
    for gp, a in helper_ctx.items():
        if prog.fns[gp].natural_loops():
            for k in loops_in:
                if a == {k}:
                    loops_in[k] += 1
    for k, n in loops_in.items():
        if n < 1:
            r2.fail("%s | no loop in arm=%s" % (se.path, k),
                    "the %s arm of the statement evaluator contains no loop" % k)
    return [r1, r2, r3, r4, r5]


def _stmt_arm_helper(call):
    """Per-statement helpers: private functions that, like the statement
    evaluator itself, yield an Escape."""
    g = call.fn.prog.fns.get(call.res)
    return g is not None and bool(g.locals) and is_esc_carrier(g.locals[0])


def rule_R07_6(ctx):
    prog = ctx.prog
    r = RuleResult("R07.6", "`for` takes its snapshot once before the loop; "
                   "`while` re-evaluates its condition inside the loop, "
                   "before the body",
                   "re-evaluating the iterable per iteration or hoisting the "
                   "while condition changes which iterations run")
    ses = stmt_evaluators(prog)
    if not ses:
        r.anchor_missing("statement evaluator")
        return r
    se, se_path = ses[0]
    # loops moved into private per-statement helpers are seen through
    import inline
    vf = mir.VariantFlow(se, [(se_path, STMT)])
    if not any({t[0] for t in vf.at(h)} in ({"While"}, {"For"}) for h in se.natural_loops()):
        se = inline.view(prog, se, pick=_stmt_arm_helper)
        vf = mir.VariantFlow(se, [(se_path, STMT)])
    graph = prog.call_graph()
    reach_se = {p for p in prog.fns if se.path in prog.reachable_from([p], graph)}

    def arms(bb):
        return {t[0] for t in vf.at(bb)}
    for h, body in se.natural_loops().items():
        a = arms(h)
        if a not in ({"While"}, {"For"}):
            continue
        evals = [c for c in se.calls() if c.bb in body and not c.is_ptr and c.res in reach_se]
        kinds = [("escape" if is_esc_carrier(c.dstty or "") else
                  "bool" if (c.dstty or "").startswith("std::result::Result<bool") else "other")
                 for c in evals]
        r.inst("%s loop: evaluator calls inside the loop: %s" % (sorted(a)[0], [(c.res, k) for c, k in zip(evals, kinds)]))
        if a == {"For"}:
            if kinds == ["escape"]:
                r.ok()
            else:
                r.fail("%s | for-loop evaluator calls=%s" % (se.path, ",".join(kinds)),
                       "the for loop must only evaluate its body per "
                       "iteration; found %s" % [(c.res) for c in evals])
            # the loop steps through a snapshot: apart from evaluating the
            # body (and binding the loop variables) nothing inside the loop
            # may lock a list/object cell, i.e. read the live container
            import locks as _locks
            eff = ctx.memo("lock_eff", lambda: _locks.lock_effects(prog))
            live = []
            for c in se.calls():
                if c.bb not in body or c.is_ptr or c.res in reach_se:
                    continue
                t_ = mir.mutex_locked_type(c)
                locked = ({t_} if t_ else set()) | set(eff.get(c.res, ()))
                cells = sorted(x for x in locked if "SourcedValue" in x and "HashMap" not in x)
                if cells:
                    live.append((c, cells))
            # a lazily evaluated iterator (Box<dyn Iterator>, `map(move |i| ..)`)
            # stepped by the loop: its closures run inside the loop
            for c in se.calls():
                if c.bb not in body or not (c.declared or "").endswith("Iterator::next"):
                    continue
                a0 = c.argtys[0] if c.argtys else ""
                if "dyn " not in a0 and "{closure@" not in a0:
                    continue
                # where does the iterator come from?
                prod = ops.try_chain_source(se, c.args[0])
                seenp = set()
                cur_op = c.args[0]
                for _ in range(6):
                    cp_ = se.canon_op(cur_op)
                    if cp_[0][0] != "call":
                        break
                    pc_ = se.call_at(cp_[0][1])
                    if pc_ is None:
                        break
                    g_ = prog.fns.get(pc_.res) if not pc_.is_ptr else None
                    if g_ is not None and g_.full and not g_.generated:
                        prod = pc_
                        break
                    if not pc_.args:
                        break
                    cur_op = pc_.args[0]
                if prod is None or prod.is_ptr:
                    continue
                pg = prog.fns.get(prod.res)
                if pg is None or not pg.full:
                    continue
                for cl in prog.closures_of(pg.path):
                    cells = set()
                    for cc in cl.calls():
                        t_ = mir.mutex_locked_type(cc)
                        for x in ({t_} if t_ else set()) | (set(eff.get(cc.res, ())) if not cc.is_ptr else set()):
                            if "SourcedValue" in x and "HashMap" not in x:
                                cells.add(x)
                    if cells:
                        live.append((c, sorted(cells) + ["(in %s, run lazily by the loop)" % cl.path]))
                        break
            r.inst("for loop: %d call(s) inside the loop can lock a container cell" % len(live))
            if not live:
                r.ok()
            else:
                r.fail("%s | for-loop reads the live container via %s" % (se.path, live[0][0].res.split("::")[-1]),
                       "inside the `for` loop %s can lock %s: the loop reads "
                       "the container being iterated on every step instead of "
                       "a snapshot taken before the loop, so writes made by "
                       "the body change the remaining iterations"
                       % (live[0][0].res, live[0][1]), where=live[0][0].loc)
            # the iterated collection is produced before the loop
            its = [c for c in se.calls() if c.bb in body and (c.declared or "") == "std::iter::Iterator::next"]
            srcs = []
            for c in its:
                cp = se.canon_op(c.args[0])
                root = cp[0]
                cur = root
                # walk: next(&mut it) ; it = into_iter(x) ; x = payload of call
                for _ in range(6):
                    if cur[0] == "call":
                        cc = se.call_at(cur[1])
                        if cc is None:
                            break
                        if (cc.declared or "") in ("std::iter::IntoIterator::into_iter",):
                            src = ops.try_chain_source(se, cc.args[0])
                            if src is not None:
                                srcs.append(src)
                            break
                        break
                    if cur[0] == "local":
                        ds = se.defs().get(cur[1], [])
                        nxt = None
                        for (bb, idx, kind, payload) in ds:
                            if kind == "rv" and payload[0] == "use" and mir.is_place_operand(payload[1]):
                                nxt = se.canon_op(payload[1])[0]
                        if nxt is None:
                            break
                        cur = nxt
                    else:
                        break
            if srcs and all(s.bb not in body and se.dominates(s.bb, h) for s in srcs):
                r.inst("for loop iterates the result of %s, computed before the loop" % [s.res for s in srcs])
                r.ok()
            elif srcs:
                r.fail("%s | for-loop snapshot inside loop" % se.path,
                       "the collection iterated by `for` is recomputed inside the loop")
            else:
                r.unproven.append("for loop: source of the iterated collection not resolved")
        else:
            if sorted(kinds) == ["bool", "escape"]:
                cb = [c for c, k in zip(evals, kinds) if k == "bool"][0]
                eb = [c for c, k in zip(evals, kinds) if k == "escape"][0]
                if se.dominates(cb.bb, eb.bb):
                    r.ok()
                else:
                    r.fail("%s | while-body not dominated by condition" % se.path,
                           "the while body can run without the condition "
                           "having been evaluated in that iteration")
            else:
                r.fail("%s | while-loop evaluator calls=%s" % (se.path, ",".join(kinds)),
                       "the while loop must evaluate its condition and its "
                       "body on every iteration; found %s" % [c.res for c in evals])
    if not r.obligations:
        r.anchor_missing("while/for loops in the statement evaluator")
    return r


def run(ctx):
    return rule_R07(ctx) + [rule_R07_6(ctx)]


META = {
    "level": "other",
    "technique": "must-use typestate of Escape values + per-variant outcome "
                 "tables over CFG/loop structure, contextualised by the Stmt "
                 "variant decision table (MIR static analysis)",
    "trusted_base": ["rustc MIR", "natural-loop reconstruction from MIR"],
    "assumptions": ["which if-branch runs, iteration order and pair contents "
                    "are not decided"],
    "explanation": "Every place where an Escape value is received is "
                   "classified: forwarded, interpreted by a loop, by the "
                   "statement sequence, by the call boundary or by the "
                   "program boundary; each table is compared with the "
                   "documented one, and no escape may be dropped.",
}
