"""C16 — no implicit conversions: out-of-domain operands are type errors."""
import re
import mir
import ops
from ops import BINOP, VALUE, ERR, KINDS, OPS
from framework import RuleResult

SAME = lambda ks: {(k, k) for k in ks}
EXPECTED = {
    "Sum": SAME(["Int", "Str", "List"]),
    "Sub": SAME(["Int"]), "Mul": SAME(["Int"]), "Div": SAME(["Int"]),
    "Mod": SAME(["Int"]),
    "And": SAME(["Bool"]), "Or": SAME(["Bool"]),
    "Eq": SAME(["Null", "Bool", "Int", "Str", "List", "Object"]),
    "Ne": SAME(["Null", "Bool", "Int", "Str", "List", "Object"]),
    "Gt": SAME(["Int"]), "Gte": SAME(["Int"]), "Lt": SAME(["Int"]),
    "Lte": SAME(["Int"]),
    "RefEq": SAME(["List", "Object", "Func"]),
    "RefNe": SAME(["List", "Object", "Func"]),
}
TYPE_ERRORS = {(ERR, "InvalidOpTypes"), (ERR, "InvalidEqOpTypes")}

# reject-side error -> accepted Value variants (DESIGN §4 R16.2)
ALL = set(KINDS)
CONTEXTS = {
    "SpreadNonListInList": {"List"},
    "ListDestructureOnNonList": {"List"},
    "ValueNotRangeIndexAssignable": {"List"},
    "SpreadNonObjectInObject": {"Object"},
    "ObjectDestructureOnNonObject": {"Object"},
    "PropAccessOnNonObject": {"Object"},
    "ForIterNotIterable": {"Str", "List", "Object"},
    "ValueNotIndexable": {"Str", "List", "Object"},
    "ValueNotIndexAssignable": {"List", "Object"},
    "ValueNotRangeIndexable": {"Str", "List"},
    "RangeIndexAssignOnNonIndexable": {"Str", "List"},
    "CannotCallNonFunc": {"Func", "BuiltinFunc"},
    "InterpolatedValueNotString": {"Str"},
    "TypeFunctionOnNull": ALL - {"Null"},
}
INCORRECT_TYPE = {"bool": {"Bool"}, "int": {"Int"}, "string": {"Str"}}
TYPE_NAMES = {"Null": "null", "Bool": "bool", "Int": "int", "Str": "string",
              "List": "list", "Object": "object", "BuiltinFunc": "func",
              "Func": "func"}


def delegated_table(prog, f, pt, op, lhs_p, rhs_p):
    """If, in the region specific to `op`, the operands are handed in order to
    a local helper g(lhs, rhs), return g's acceptance table: the set of
    (lhs kind, rhs kind) for which g reaches a success construction
    (Ok/Some)."""
    region = set()
    for bb, st in pt.vf.state.items():
        opset = {t[0] for t in st}
        if op in opset and len(opset) <= 4:
            region.add(bb)
    for bb in sorted(region):
        c = f.call_at(bb)
        if c is None or c.is_ptr:
            continue
        g = prog.fns.get(c.res)
        if g is None or not g.full or g.is_closure or g.path == f.path:
            continue
        idx = []
        for a in c.args:
            cp = f.canon_op(a)
            if ops.same_value(cp, lhs_p):
                idx.append("l")
            elif ops.same_value(cp, rhs_p):
                idx.append("r")
            else:
                idx.append("?")
        if idx.count("l") != 1 or idx.count("r") != 1:
            continue
        li, ri = idx.index("l") + 1, idx.index("r") + 1
        direct = g
        # chase thin wrappers: a helper that does not itself switch on the
        # operands but hands them on to another local function
        for _ in range(4):
            sw = ops.arg_rooted_switches(g)
            if ((("arg", li), "*") in sw) or ((("arg", ri), "*") in sw):
                break
            nxt = None
            for c2 in g.calls():
                if c2.is_ptr:
                    continue
                h = prog.fns.get(c2.res)
                if h is None or not h.full or h.is_closure or h.path == g.path:
                    continue
                pos = []
                for a in c2.args:
                    cp2 = g.canon_op(a)
                    if ops.same_value(cp2, (("arg", li),)):
                        pos.append("l")
                    elif ops.same_value(cp2, (("arg", ri),)):
                        pos.append("r")
                    else:
                        pos.append("?")
                if pos.count("l") == 1 and pos.count("r") == 1:
                    nxt = (h, pos.index("l") + 1, pos.index("r") + 1)
                    break
            if nxt is None:
                break
            g, li, ri = nxt
        # arms of the helper that live in private helpers of their own
        import inline
        g = inline.view(prog, g)
        gpaths = [((("arg", li), "*"), VALUE), ((("arg", ri), "*"), VALUE)]
        gt = ops.PairTable(prog, g, gpaths)
        acc = set()
        for a in KINDS:
            for b in KINDS:
                def succ(bb2):
                    bc = gt.bc(bb2)
                    return ("std::result::Result", "Ok") in bc or \
                        ("std::option::Option", "Some") in bc
                if gt.reaches((a, b), succ):
                    acc.add((a, b))
        return Deleg(g, acc, (li < ri), direct, li, ri)
    return None


class Deleg(tuple):
    """(table function, accepted pairs, operands in order) plus .direct (the
    function the operator function calls) and the parameter positions."""
    def __new__(cls, g, acc, in_order, direct, li, ri):
        o = tuple.__new__(cls, (g, acc, in_order))
        o.direct = direct
        o.li = li
        o.ri = ri
        return o


def rule_R16_1(ctx):
    prog = ctx.prog
    r = RuleResult("R16.1", "operand-kind acceptance table of all 15 binary "
                   "operators (15 x 64 cells) equals the documented one",
                   "an extra accepted cell is an implicit conversion; a "
                   "missing one rejects a documented operation")
    cands = ops.find_operator_fn(prog)
    if len(cands) != 1:
        r.anchor_missing("operator function")
        return r
    f, op_p, lhs_p, rhs_p = cands[0]
    pt = ops.PairTable(prog, f, [(op_p, BINOP), (lhs_p, VALUE), (rhs_p, VALUE)])
    variants = prog.enum_variant_names(BINOP)
    if sorted(variants) != sorted(OPS):
        r.fail("ast::BinaryOp | variants=%s" % ",".join(sorted(variants)),
               "the operator enum no longer has the 15 documented operators")
    for op in variants:
        def value_built(bb):
            return any(a == VALUE for (a, v) in pt.bc(bb))

        def type_error(bb):
            return bool(pt.bc(bb) & TYPE_ERRORS)
        acc = set()
        rej_ok = True
        for a in KINDS:
            for b in KINDS:
                if pt.reaches((op, a, b), value_built):
                    acc.add((a, b))
        deleg = None
        if len(acc) == 64:
            deleg = delegated_table(prog, f, pt, op, lhs_p, rhs_p)
            if deleg is not None:
                g, gacc, in_order = deleg
                # cells that build their value in this function itself (not
                # through the helper) are accepted whatever the helper says
                def built_here(bb_):
                    return any(a_ == VALUE for (a_, v_) in ops.block_constructs(prog, f, bb_))
                direct = set()
                if len(acc) == 64:
                    for a_ in KINDS:
                        for b_ in KINDS:
                            if any(built_here(bb_) and len({t[1:] for t in pt.vf.at(bb_) if t[0] == op}) < 64
                                   for bb_ in pt.vf.blocks_for((op, a_, b_))):
                                direct.add((a_, b_))
                acc = (acc & gacc) | direct
                if not in_order:
                    r.fail("%s | op=%s delegate-operand-order" % (f.path, op),
                           "operands are handed to %s in swapped order" % g.path)
        exp = EXPECTED.get(op, set())
        # other diagnostics reachable for cells the table rejects
        def other_errors(cell):
            out = set()
            for bb in pt.vf.blocks_for((op,) + cell):
                for (a_, v_) in pt.bc(bb):
                    if a_ == ERR and v_ not in ("InvalidOpTypes", "InvalidEqOpTypes", "AtLoc"):
                        out.add(v_)
            return out
        r.inst("%s: accepts %s%s" % (op, sorted(acc),
                                      (" (via %s)" % deleg[0].path) if deleg else ""))
        for a in KINDS:
            for b in KINDS:
                cell = (a, b)
                if (cell in acc) == (cell in exp):
                    # rejected cells must end in a type error naming the types
                    if cell not in acc and not pt.reaches((op, a, b), type_error):
                        r.fail("%s | op=%s cell=%s,%s no-type-error" % (f.path, op, a, b),
                               "operator %s on (%s, %s) is rejected but not "
                               "with InvalidOpTypes/InvalidEqOpTypes" % (op, a, b))
                    elif cell not in acc and other_errors(cell):
                        r.fail("%s | op=%s cell=%s,%s other-error=%s" % (f.path, op, a, b, ",".join(sorted(other_errors(cell)))),
                               "operator %s on the out-of-domain operands (%s, "
                               "%s) can stop with %s instead of the type "
                               "diagnostic naming both operand types"
                               % (op, a, b, sorted(other_errors(cell))), where=mir.span_loc(f.span))
                    else:
                        r.ok()
                elif cell in acc:
                    r.fail("%s | op=%s accepts=%s,%s" % (f.path, op, a, b),
                           "operator %s accepts operands (%s, %s), which the "
                           "documented table rejects (implicit conversion)"
                           % (op, a, b), where=mir.span_loc(f.span))
                else:
                    r.fail("%s | op=%s rejects=%s,%s" % (f.path, op, a, b),
                           "operator %s rejects operands (%s, %s), which the "
                           "documented table accepts" % (op, a, b),
                           where=mir.span_loc(f.span))
    return r


def nearest_value_switch(f, bb):
    """Nearest dominating discriminant switch on a Value-typed place."""
    idom = f.idoms()
    cur = bb
    seen = 0
    while cur in idom and seen < 10000:
        seen += 1
        if f.term(cur)["k"] == "switch" and cur != bb:
            info = f.switch_info(cur)
            if info and info["kind"] == "discr" and info["enum"] == VALUE:
                return cur, info
        if cur == 0:
            break
        cur = idom[cur]
    return None, None


def guard_set(f, bb):
    """Accepted Value variants for the reject block bb: complement of the
    variants with which the nearest dominating Value switch lets control
    reach bb."""
    sbb, info = nearest_value_switch(f, bb)
    if info is None:
        return None
    cp = f.canon(info["place"])
    vf = mir.VariantFlow(f, [(cp, VALUE)])
    reach = {t[0] for t in vf.at(bb)}
    return set(KINDS) - reach


def _higher_order_contexts(prog, f, bb, kd, aops):
    """An IncorrectType raised by a generic helper `f(.., exp_type, ..,
    extract)`: the expected-type name is a parameter and the accepted kinds are
    decided by a selector closure `extract(Value) -> Result<T, Value>` whose
    `Err` answer leads to the error.  For every call site of f return
    (site, type name, accepted kinds or None, note)."""
    fi = kd["fields"].index("exp_type")
    cp = f.canon_op(aops[fi])
    name_arg = None
    if cp[0][0] == "call":
        c = f.call_at(cp[0][1])
        if c is not None and c.args and mir.is_place_operand(c.args[0]):
            c2 = f.canon_op(c.args[0])
            if c2[0][0] == "arg":
                name_arg = c2[0][1]
    elif cp[0][0] == "arg":
        name_arg = cp[0][1]
    if name_arg is None:
        return []
    # the error is raised on the Err edge of a call of a closure parameter
    sel_arg = None
    idom = f.idoms()
    cur = bb
    for _ in range(64):
        if cur == 0 or cur not in idom:
            break
        cur = idom[cur]
        if f.term(cur)["k"] != "switch":
            continue
        info = f.switch_info(cur)
        if not info or info["kind"] != "discr" or not info["enum"].startswith("std::result::Result<"):
            continue
        root = f.canon(info["place"])[0]
        if root[0] != "call":
            continue
        cc = f.call_at(root[1])
        if cc is None or not (cc.declared or "").startswith("std::ops::Fn"):
            continue
        err_t = dict(info["cases"]).get("Err", info["otherwise"])
        if not f.dominates(err_t, bb):
            continue
        c0 = f.canon_op(cc.args[0])
        if c0[0][0] == "arg":
            sel_arg = c0[0][1]
        break
    if sel_arg is None:
        return []
    out = []
    for site in prog.callers_of(f.path):
        g = site.fn
        nm = None
        a = site.args[name_arg - 1]
        cpa = g.canon_op(a)
        if cpa[0][0] == "const":
            try:
                nm = eval(cpa[0][1])
            except Exception:  # noqa: BLE001
                nm = None
        sel = g.canon_op(site.args[sel_arg - 1])
        h = None
        if sel[0][0] == "agg":
            st = g.stmts(sel[0][1])[sel[0][2]]
            if st[2][1].get("k") == "closure":
                h = prog.fns.get(st[2][1]["def"])
        if h is None or not h.full:
            out.append((site, nm, None, "selector is not a closure written at the call site"))
            continue
        vf = mir.VariantFlow(h, [((("arg", 2),), VALUE)])
        acc = set()
        for k in KINDS:
            for b2 in vf.blocks_for((k,)):
                if ("std::result::Result", "Ok") in ops.block_constructs(prog, h, b2):
                    acc.add(k)
        out.append((site, nm, acc, ""))
    return out


def _no_helpers(call):
    return False


def rule_R16_2(ctx):
    prog = ctx.prog
    r = RuleResult("R16.2", "typed contexts accept exactly their documented "
                   "value kinds (anchored on the reject-side error)",
                   "a context accepting another kind converts implicitly; "
                   "one rejecting a documented kind breaks a construct")
    seen = {}
    label_from_view = {}
    import inline

    need = list(CONTEXTS) + ["IncorrectType(%s)" % n for n in INCORRECT_TYPE]

    def fns_to_scan():
        for f in prog.hand_fns():
            yield f, False
        # (fallback only: contexts whose reject-side error was not found above)
        if all(seen.get(n, 0) >= 1 for n in need):
            return
        # generic plumbing (`eval_expr_to_bool` -> `eval_expr_to(.., into_bool)`
        # -> `eval_expr_as(.., narrow, new_err)`): each concrete wrapper is read
        # with the callback-taking helpers, the callbacks handed to them and
        # their closures inlined, which puts the kind test and the error of
        # the context back into one body
        cbs = inline.callback_helpers(prog)
        if cbs:
            for f in prog.hand_fns():
                if f.is_closure or f.from_expansion or f.path in cbs:
                    continue
                if any((not c.is_ptr) and c.res in cbs for c in f.calls()):
                    v = inline.view(prog, f, pick=_no_helpers, callbacks=True, closures=True)
                    if v is not f:
                        yield v, True
    for f, is_view in fns_to_scan():
        if f.from_expansion or f.module.startswith("eval::error"):
            continue
        for bb, i, pl, kd, aops, sp in f.aggregates(ERR):
            if is_view and inline.origin_of(f, bb) == f.path:
                continue      # (the wrapper's own sites were scanned above)
            v = kd["variant"]
            exp = None
            label = v
            if v in CONTEXTS:
                exp = CONTEXTS[v]
            elif v == "IncorrectType":
                # expected type name constant flows into exp_type
                fi = kd["fields"].index("exp_type")
                name = None
                cp = f.canon_op(aops[fi])
                if cp[0][0] == "const" and cp[0][1].startswith(("'", '"')):
                    name = eval(cp[0][1])
                if cp[0][0] == "call":
                    c = f.call_at(cp[0][1])
                    if c is not None and c.args:
                        name = mir.const_val(c.args[0])
                        if name is None and mir.is_place_operand(c.args[0]):
                            cp2 = f.canon_op(c.args[0])
                            if cp2[0][0] == "const":
                                name = eval(cp2[0][1]) if cp2[0][1].startswith(("'", '"')) else None
                if name not in INCORRECT_TYPE and is_view:
                    continue
                if name not in INCORRECT_TYPE:
                    ho = _higher_order_contexts(prog, f, bb, kd, aops)
                    if not ho:
                        r.unproven.append("%s: IncorrectType with unresolved "
                                          "expected type %r" % (f.path, name))
                        continue
                    for (site, nm, got, why) in ho:
                        if nm not in INCORRECT_TYPE or got is None:
                            r.unproven.append("%s: IncorrectType via %s: %s" % (site.fn.path, f.path, why))
                            continue
                        lab = "IncorrectType(%s)" % nm
                        seen[lab] = seen.get(lab, 0) + 1
                        r.inst("%s (through %s): %s accepts %s" % (site.fn.path, f.path, lab, sorted(got)))
                        if got == INCORRECT_TYPE[nm]:
                            r.ok()
                        else:
                            extra = sorted(got - INCORRECT_TYPE[nm])
                            missing = sorted(INCORRECT_TYPE[nm] - got)
                            r.fail("%s | context=%s extra=%s missing=%s"
                                   % (site.fn.root_fn().path, lab, ",".join(extra), ",".join(missing)),
                                   "the context guarded by Error::%s in %s (selector passed to %s) accepts %s; "
                                   "documented: %s" % (lab, site.fn.path, f.path, sorted(got),
                                                       sorted(INCORRECT_TYPE[nm])), where=site.loc)
                    continue
                exp = INCORRECT_TYPE[name]
                label = "IncorrectType(%s)" % name
            else:
                continue
            if is_view and seen.get(label, 0) >= 1 and not label_from_view.get(label):
                continue      # already decided on the plain functions
            if is_view:
                label_from_view[label] = True
            got = guard_set(f, bb)
            seen.setdefault(label, 0)
            seen[label] += 1
            if got is None:
                r.unproven.append("%s: %s not controlled by a switch on a "
                                  "Value" % (f.path, label))
                continue
            r.inst("%s: %s accepts %s" % (f.path, label, sorted(got)))
            if got == exp:
                r.ok()
            else:
                extra = sorted(got - exp)
                missing = sorted(exp - got)
                r.fail("%s | context=%s extra=%s missing=%s"
                       % (f.root_fn().path, label, ",".join(extra), ",".join(missing)),
                       "the context guarded by Error::%s in %s accepts %s; "
                       "documented: %s (extra %s, missing %s)"
                       % (label, f.path, sorted(got), sorted(exp), extra, missing),
                       where=mir.span_loc(sp))
    for n in need:
        if seen.get(n, 0) < 1:
            r.fail("anchor-missing context=%s" % n,
                   "no construction site of the reject-side error %s was "
                   "found; the typed context it guards cannot be checked" % n)
    return r


def type_name_fns(prog):
    out = []
    for f in prog.hand_fns():
        if f.is_closure or f.from_expansion or f.arg_count != 1 or not f.locals:
            continue
        if f.locals[0].replace("'static ", "") not in ("std::string::String", "&str") \
                or f.locals[1] != "&eval::value::Value":
            continue
        sw = ops.arg_rooted_switches(f)
        if ((("arg", 1), "*") in sw):
            out.append(f)
    return out


def type_name_table(f):
    cp = (("arg", 1), "*")
    vf = mir.VariantFlow(f, [(cp, VALUE)])
    table = {}
    for k in KINDS:
        names = set()
        for bb in vf.blocks_for((k,)):
            if len(vf.at(bb)) > 2:
                continue
            for s in f.stmts(bb):
                if s[0] == "=":
                    for o in mir.rvalue_operands(s[2]):
                        v = mir.const_val(o)
                        if isinstance(v, str):
                            names.add(v)
        table[k] = names
    return table


def rule_R16_3(ctx):
    prog = ctx.prog
    r = RuleResult("R16.3", "type-name tables map every value kind to its "
                   "documented name (all copies agree)",
                   "a diverging copy makes ->type() and diagnostics disagree")
    fs = type_name_fns(prog)
    if not r.require_floor("type-name functions (&Value -> String by kind)", len(fs), 1):
        return r
    for f in fs:
        t = type_name_table(f)
        r.inst("%s: %s" % (f.path, {k: sorted(v) for k, v in t.items()}))
        for k in KINDS:
            if t[k] == {TYPE_NAMES[k]}:
                r.ok()
            else:
                r.fail("%s | kind=%s name=%s" % (f.path, k, ",".join(sorted(t[k]))),
                       "%s names kind %s as %s; documented name is '%s'"
                       % (f.path, k, sorted(t[k]), TYPE_NAMES[k]),
                       where=mir.span_loc(f.span))
    return r


def _mismatch_sites(prog, r, dl, A, B):
    """Construction sites of the comparison helper's mismatch value (the `E`
    of its `Result<bool, E>`): component A names the lhs operand's type,
    component B the rhs operand's."""
    import anchors
    g = dl[0]
    li, ri = dl.li, dl.ri
    head, args = anchors._generic_args(g.locals[0])
    if head != "std::result::Result" or len(args) != 2:
        r.unproven.append("%s does not return a Result: mismatch value not checked" % g.path)
        return
    E = args[1]
    sites = 0
    for bb, i, pl, rv, sp in g.assigns():
        if rv[0] != "agg" or pl[1] or g.locals[pl[0]] != E or g.is_cleanup(bb):
            continue
        kd, aops = rv[1], rv[2]
        if kd.get("k") not in ("tuple", "adt") or max(A, B) >= len(aops):
            continue
        sites += 1
        verdicts = {}
        for pos, want, label in ((A, li, "lhs"), (B, ri, "rhs")):
            cp = [p for p in g.canon_op(aops[pos]) if p not in ("&", "*")]
            fl = [p for p in cp if p[0] == "f"]
            root = cp[0] if cp else None
            src_ty = ""
            if root and root[0] == "call":
                cc = g.call_at(root[1])
                src_ty = (cc.dstty or "") if cc is not None else ""
            elif root and root[0] in ("local", "arg"):
                src_ty = g.locals[root[1]]
            if fl and E in src_ty:
                verdicts[label] = ("pass-through", fl[-1][1] == pos)
                continue
            params = set()
            if root and root[0] == "call":
                cc = g.call_at(root[1])
                for a in (cc.args if cc is not None else []):
                    if mir.is_place_operand(a):
                        ar = [p for p in g.canon_op(a) if p not in ("&", "*")]
                        if ar and ar[0][0] == "arg":
                            params.add(ar[0][1])
            elif root and root[0] == "arg":
                params.add(root[1])
            if params:
                verdicts[label] = ("from parameter %s" % sorted(params), params == {want})
            else:
                verdicts[label] = ("unknown", None)
        r.inst("%s: mismatch value built with %s" % (g.path, {k: v[0] for k, v in verdicts.items()}))
        if all(v[1] is True for v in verdicts.values()):
            r.ok()
        elif any(v[1] is False for v in verdicts.values()):
            r.fail("%s | mismatch value operands %s" % (g.path, ",".join("%s:%s" % (k, v[0]) for k, v in sorted(verdicts.items()))),
                   "the comparison's mismatch value must name the lhs operand's "
                   "type in component %d and the rhs operand's in component %d "
                   "(these are the ones InvalidEqOpTypes reports as lhs_type and "
                   "rhs_type); found %s" % (A, B, verdicts), where=mir.span_loc(sp))
        else:
            r.unproven.append("%s: origin of a mismatch component not recognised (%s)" % (g.path, verdicts))
    r.require_floor("construction sites of the comparison's mismatch value", sites, 1)


def rule_R16_4(ctx):
    import prov
    prog = ctx.prog
    r = RuleResult("R16.4", "operator type errors name the lhs type, then the "
                   "rhs type: the error is built from (lhs, rhs) in order and "
                   "its message formats them in that order",
                   "swapped operands in the diagnostic name the wrong types "
                   "for `a op b`")
    cands = ops.find_operator_fn(prog)
    if len(cands) != 1:
        r.anchor_missing("operator function")
        return r
    f, op_p, lhs_p, rhs_p = cands[0]
    pv = prov.Prov(prog, foreign="stop", field_based=False, follow_params=False)
    n = 0
    # the error may be built by the operator function, by one of its closures,
    # or by a hand-written helper it calls with its operands
    helpers_ = []
    for c_ in f.calls():
        h_ = prog.fns.get(c_.res) if not c_.is_ptr else None
        if h_ is not None and h_.full and not h_.is_closure and not h_.generated and h_.path != f.path \
                and h_ not in helpers_ and prog.ctor_helper(h_.path) is None and (
                    any(True for _ in h_.aggregates(ERR, "InvalidOpTypes"))
                    or any(True for _ in h_.aggregates(ERR, "InvalidEqOpTypes"))):
            helpers_.append(h_)

    def to_f_params(g_, idxs):
        """parameter indices of helper g_ -> parameter indices of f (through
        the arguments at f's call sites of g_)."""
        out_ = set()
        for c_ in f.calls():
            if c_.is_ptr or c_.res != g_.path:
                continue
            for k_ in idxs:
                if k_ - 1 < len(c_.args):
                    cp_ = [p for p in f.canon_op(c_.args[k_ - 1]) if p not in ("&", "*")]
                    if cp_ and cp_[0][0] == "arg":
                        out_.add(cp_[0][1])
        return sorted(out_)
    for g in [f] + prog.closures_of(f.path) + helpers_:
        for bb, i, pl, kd, aops, sp in g.aggregates(ERR, "InvalidOpTypes"):
            n += 1
            got = {}
            for name in ("lhs", "rhs"):
                o = pv.origins(g, aops[kd["fields"].index(name)], ())
                if g in helpers_:
                    got[name] = to_f_params(g, sorted(set(x[2] for x in o if x[0] == "param" and x[1] == g.path)))
                    continue
                got[name] = sorted(set(x[2] for x in o if x[0] == "param" and x[1] == f.path))
            want = {"lhs": [lhs_p[0][1]], "rhs": [rhs_p[0][1]]}
            r.inst("%s: InvalidOpTypes{lhs <- param %s, rhs <- param %s}" % (g.path, got["lhs"], got["rhs"]))
            if got == want:
                r.ok()
            else:
                r.fail("%s | InvalidOpTypes operands lhs=%s rhs=%s" % (g.path, got["lhs"], got["rhs"]),
                       "Error::InvalidOpTypes must carry (lhs, rhs) = the "
                       "operator function's lhs and rhs parameters (%s, %s); "
                       "found %s" % (want["lhs"], want["rhs"], got), where=mir.span_loc(sp))
    # InvalidEqOpTypes is specific to `==`/`!=`: wherever it is built (the
    # operator function, or a conversion method of the comparison's own
    # mismatch type), its two type names are two distinct components A, B of
    # the comparison's mismatch value ...
    conv = []
    seen_sites = set()
    for g in [f] + prog.closures_of(f.path) + helpers_ + \
            [h for h in prog.hand_fns() if not h.from_expansion and h.impl_trait is None]:
        if prog.ctor_helper(g.path) is not None:
            continue      # a constructor helper: its call sites carry the (virtual) aggregate
        for bb, i, pl, kd, aops, sp in g.aggregates(ERR, "InvalidEqOpTypes"):
            if (g.path, bb, i) in seen_sites:
                continue
            seen_sites.add((g.path, bb, i))
            n += 1
            idx = {}
            for name in ("lhs_type", "rhs_type"):
                cp = g.canon_op(aops[kd["fields"].index(name)])
                fl = [p for p in cp if p != "*" and p != "&" and p[0] == "f"]
                idx[name] = fl[-1][1] if fl else None
            r.inst("%s: InvalidEqOpTypes{lhs_type <- .%s, rhs_type <- .%s of the comparison's error}" % (
                g.path, idx["lhs_type"], idx["rhs_type"]))
            if idx["lhs_type"] is not None and idx["rhs_type"] is not None and idx["lhs_type"] != idx["rhs_type"]:
                conv.append((idx["lhs_type"], idx["rhs_type"]))
                r.ok()
            else:
                r.fail("%s | InvalidEqOpTypes operands %s" % (g.path, idx),
                       "Error::InvalidEqOpTypes must take the (lhs type, rhs "
                       "type) components of the comparison's error", where=mir.span_loc(sp))
    r.require_floor("operator type-error construction sites", n, 2)
    # ... and the comparison helper fills A from its lhs operand and B from its
    # rhs operand (or hands an inner mismatch on with A and B in place)
    if conv and len(set(conv)) == 1:
        A, B = conv[0]
        pt_ = ops.PairTable(prog, f, [(op_p, ops.BINOP), (lhs_p, VALUE), (rhs_p, VALUE)])
        dl = delegated_table(prog, f, pt_, "Eq", lhs_p, rhs_p)
        if dl is None:
            r.unproven.append("comparison helper not found: construction of the mismatch value not checked")
        else:
            _mismatch_sites(prog, r, dl, A, B)
    elif conv:
        r.fail("%s | InvalidEqOpTypes conversion sites disagree %s" % (f.path, sorted(set(conv))),
               "the sites building InvalidEqOpTypes read different components of the mismatch value")
    d = prog.fns.get("<eval::error::Error as std::fmt::Display>::fmt")
    if d is None:
        r.anchor_missing("<Error as Display>::fmt")
        return r
    cp = (("arg", 1), "*")
    vf = mir.VariantFlow(d, [(cp, ERR)])
    adt = prog.adts.get(ERR)
    for variant, names in (("InvalidOpTypes", ("lhs", "rhs")), ("InvalidEqOpTypes", ("lhs_type", "rhs_type"))):
        fields = [fd["name"] for v in adt["variants"] if v["name"] == variant for fd in v["fields"]]
        order = []
        for bb in sorted(b for b in vf.blocks_for((variant,)) if len(vf.at(b)) == 1):
            for s_ in d.stmts(bb):
                if s_[0] == "=" and s_[2][0] == "agg" and s_[2][1].get("k") == "array":
                    for o in s_[2][2]:
                        cur = d.canon_op(o)
                        for _ in range(4):
                            if cur and cur[0][0] == "call":
                                cc = d.call_at(cur[0][1])
                                if cc is None or not cc.args:
                                    break
                                cur = d.canon_op(cc.args[0])
                            else:
                                break
                        fl = [p for p in cur if p != "*" and p != "&" and p[0] == "f"] if cur else []
                        order.append(fields[fl[-1][1]] if fl and fl[-1][1] < len(fields) else None)
        r.inst("message of %s formats %s" % (variant, order))
        if names[0] in order and names[1] in order and order.index(names[0]) < order.index(names[1]):
            r.ok()
        else:
            r.fail("Display | %s message order=%s" % (variant, ",".join(str(x) for x in order)),
                   "the message of Error::%s does not format %s before %s" % (variant, names[0], names[1]))
    return r


def rule_R16_7(ctx):
    import c10
    import guards
    prog = ctx.prog
    r = RuleResult("R16.7", "nested comparison: two lists/objects are declared "
                   "unequal without looking at their elements only when their "
                   "lengths differ",
                   "any other early `false` (e.g. comparing the key sets "
                   "first) hides the type error of a shared element whose "
                   "kinds differ: `{b:1,c:1} == {a:1,b:\"s\"}` must be a "
                   "type diagnostic, not `false`")
    h = c10.helpers(ctx)
    if h is None or h[2]["Eq"] is None:
        r.anchor_missing("structural comparison helper")
        return r
    g = h[2]["Eq"][0]
    gt = ops.PairTable(prog, g, [((("arg", 1), "*"), VALUE), ((("arg", 2), "*"), VALUE)])
    loops = g.natural_loops()
    n = 0
    for K in ("List", "Object"):
        ex = gt.exclusive_blocks((K, K))
        hdrs = [hd for hd in loops if hd in ex]
        if not hdrs:
            r.unproven.append("%s arm: no element loop found" % K)
            continue
        inloop = set()
        for hd in hdrs:
            inloop |= loops[hd]
        first = min(hdrs, key=lambda b_: len(g.reach_from(b_)), default=None)
        for bb, i, pl, kd, aops, sp in g.aggregates("std::result::Result", "Ok"):
            if bb not in ex or bb in inloop or mir.const_val(aops[0]) is not False:
                continue
            # an answer `false` given before the element walk: not reachable
            # from any loop header of this arm
            if any(bb in g.reach_from(hd) for hd in hdrs):
                continue      # (the `false` after a missing key etc. inside/after the walk)
            gd = guards.guard_of(g, bb)
            if gd is None:
                n += 1
                r.fail("%s | kind=%s early false not a length test" % (g.path, K),
                       "the %s arm answers `false` before comparing any element, "
                       "and not on a comparison of the two lengths" % K, where=mir.span_loc(sp))
                continue
            n += 1
            _, rel, a, b, _other = gd
            lens = a[0] == "len" and b[0] == "len"
            r.inst("%s: %s arm answers false before the walk when %s" % (g.path, K, guards.rel_str(rel, a, b)))
            if lens and rel == "Ne":
                r.ok()
            else:
                r.fail("%s | kind=%s early false not a length test" % (g.path, K),
                       "the %s arm of the structural comparison answers "
                       "`false` before comparing any element on a condition "
                       "other than `len(lhs) != len(rhs)` (%s): a shared "
                       "element of different kinds is no longer reported"
                       % (K, guards.rel_str(rel, a, b)), where=mir.span_loc(sp))
    r.require_floor("early-false answers before the element walk", n, 2)
    return r


def rule_R16_8(ctx, rule_id="R16.8"):
    import c14
    prog = ctx.prog
    r = RuleResult(rule_id, "a typed context evaluates its expression: in every "
                   "function that coerces an expression to a kind (raises "
                   "IncorrectType) no success exit bypasses the expression "
                   "evaluator",
                   "a fast path that answers from the syntax (e.g. the text of a "
                   "string literal, ignoring its interpolation slots) gives a "
                   "different value than evaluating the expression")
    graph = prog.call_graph()
    evs = {g.path for g in c14.expr_evaluators(prog)}
    reach_ev = {p for p in prog.fns if evs & prog.reachable_from([p], graph)} | evs
    n = 0
    for f in prog.hand_fns():
        if f.is_closure or f.from_expansion or f.path in evs:
            continue
        if not any(True for _ in f.aggregates(ERR, "IncorrectType")) and \
                not any(any(True for _ in g.aggregates(ERR, "IncorrectType")) for g in prog.closures_of(f.path)):
            continue
        ptys = f.locals[1:f.arg_count + 1]
        if not any(__import__("anchors").mentions_expr(prog, t) for t in ptys):
            continue      # not handed an expression
        evals = [c for c in f.calls() if not c.is_ptr and c.res in reach_ev]
        if not evals:
            continue
        n += 1
        rets = f.return_locals()
        exits = [(bb, sp) for bb, i, pl, kd, ao, sp in f.aggregates("std::result::Result", "Ok")
                 if pl[0] in rets and not pl[1]]
        bypass = [(bb, sp) for bb, sp in exits if not any(f.dominates(c.bb, bb) for c in evals)]
        r.inst("%s: %d success exit(s), %d not behind the evaluation" % (f.path, len(exits), len(bypass)))
        if not bypass:
            r.ok()
        else:
            r.fail("%s | success exit bypasses evaluation" % f.path,
                   "%s can answer without evaluating its expression: a value "
                   "is produced from the syntax of the expression alone" % f.path,
                   where=mir.span_loc(bypass[0][1]))
    r.require_floor("coercion helpers (raise IncorrectType, take an expression)", n, 1)
    return r


PEQ_RE = re.compile(r"^<([A-Za-z_][\w:]*)(<.*>)? as std::cmp::PartialEq(<.*>)?>::(eq|ne)$")


def _kind_enums(prog):
    """Crate enums that carry Seed kinds: at least two of their variants are
    named like variants of the value type (`Null`, `Bool`, `Int`, `Str`, ..)."""
    v = prog.adts.get("eval::value::Value") or {}
    names = {x["name"] for x in v.get("variants", [])}
    out = set()
    for path, a in prog.adts.items():
        if a.get("kind") == "Enum" and len({x["name"] for x in a.get("variants", [])} & names) >= 2:
            out.add(path)
    return out


def rule_R16_9(ctx):
    """A derived `PartialEq` on an enum whose variants are Seed kinds answers
    `false` for operands of different kinds.  Building a Seed boolean from
    that answer is the implicit conversion C16 excludes (`1 == "1"` must be a
    type error naming both types, in a folder or fast path just as in the
    evaluator)."""
    import anchors
    prog = ctx.prog
    r = RuleResult("R16.9", "no Seed boolean is built from a derived "
                   "cross-kind equality (`derive(PartialEq)` on an enum of "
                   "kinds compares discriminants first and says `false`)",
                   "a constant folder or shortcut that answers `lit == lit` "
                   "through derived equality turns a mismatched-kind "
                   "comparison into `false` instead of a type error")
    kinds = _kind_enums(prog)
    derived = set()
    for g in prog.fns.values():
        m = PEQ_RE.match(g.path or "")
        if m and g.from_expansion and m.group(1) in kinds:
            derived.add(m.group(1))
    n = 0
    for f in prog.hand_fns():
        if f.from_expansion or f.generated:
            continue
        for c in f.calls():
            m = PEQ_RE.match(c.res_full or "")
            if c.is_ptr or not m or m.group(1) not in derived or not c.dst or c.dst[1]:
                continue
            n += 1
            # forward, intraprocedural: copies, `!`, casts of the answer
            tainted = {c.dst[0]}
            changed = True
            hit = None
            while changed and hit is None:
                changed = False
                for bb, i, pl, rv, sp in f.assigns():
                    ops_ = []
                    if rv[0] in ("use", "un", "cast") and len(rv) > 1:
                        ops_ = [x for x in rv[1:] if isinstance(x, (list, tuple)) and x and x[0] in ("cp", "mv")]
                    elif rv[0] == "agg":
                        ops_ = [x for x in rv[2] if mir.is_place_operand(x)]
                    if not any(mir.op_place(o)[0] in tainted for o in ops_):
                        continue
                    if rv[0] == "agg":
                        kd = rv[1]
                        if kd.get("k") == "adt" and kd.get("adt") in kinds and kd.get("variant") == "Bool":
                            hit = (kd["adt"], mir.span_loc(sp))
                            break
                        continue
                    if not pl[1] and pl[0] not in tainted:
                        tainted.add(pl[0])
                        changed = True
                if hit is None:
                    for c2 in f.calls():
                        if not c2.is_ptr and "Bool" in anchors.ctor_variants(prog, c2.res) and any(
                                mir.is_place_operand(a) and mir.op_place(a)[0] in tainted for a in c2.args):
                            hit = (c2.res, c2.loc)
                            break
            if hit and any((not d.is_ptr) and (d.res or "").endswith("mem::discriminant")
                           and (d.bb == c.bb or f.dominates(d.bb, c.bb)) for d in f.calls()):
                # kinds compared first (`discriminant(&l) == discriminant(&r)`):
                # the derived equality then only sees operands of one kind
                r.ok()
                r.notes.append("%s: derived equality on %s behind a discriminant comparison" % (f.path, m.group(1)))
            elif hit:
                r.fail("%s | Seed boolean from derived equality on %s" % (f.path, m.group(1)),
                       "%s builds %s::Bool from `%s` on %s, whose derived "
                       "PartialEq answers `false` for different kinds: a "
                       "mismatched-kind `==`/`!=` is answered instead of "
                       "rejected" % (f.path, hit[0], m.group(4), m.group(1)), where=hit[1])
            else:
                r.ok()
    r.inst("kind-carrying enums: %s; with derived PartialEq: %s; comparisons through it: %d"
           % (", ".join(sorted(kinds)), ", ".join(sorted(derived)) or "none", n))
    if not n:
        r.ok()
    r.require_floor("kind-carrying enums (the value type among them)", len(kinds), 1)
    return r


def run(ctx):
    rs = [rule_R16_1(ctx), rule_R16_2(ctx), rule_R16_3(ctx), rule_R16_4(ctx), rule_R16_7(ctx), rule_R16_8(ctx), rule_R16_9(ctx)]
    # nested positions of ==: an identity shortcut must not accept kinds the
    # structural comparison rejects (two functions)
    import c10
    r6 = c10.rule_R10_6(ctx)
    r6.rule = "R16.6"
    # only the acceptance part concerns C16 (which kinds a shortcut lets
    # through); address observation is C10's / C19's business
    kept = [v for v in r6.violations if "identity-shortcut" in v.key]
    dropped = len(r6.violations) - len(kept)
    r6.violations = kept
    r6.obligations -= dropped
    for v in r6.violations:
        v.rule = "R16.6"
        v.key = v.key.replace("R10.6", "R16.6", 1)
    rs.append(r6)
    try:
        import c16b
        rs.extend(c16b.run(ctx))
    except ImportError:
        pass
    return rs


META = {
    "level": "proof",
    "technique": "exhaustive decision-table extraction from MIR discriminant "
                 "switches (relational variant dataflow), compared cell by "
                 "cell with the documented matrix; def-use check that no "
                 "derived cross-kind PartialEq answer becomes a Seed boolean",
    "trusted_base": ["rustc MIR and callee resolution"],
    "assumptions": ["contexts that do not go through the listed reject-side "
                    "errors are invisible to R16.2"],
    "explanation": "The property is a finite matrix (15 operators x 8 x 8 "
                   "operand kinds, plus the typed contexts); the implemented "
                   "matrix is extracted from the code's switches and compared "
                   "with the documented one in both directions.",
}
