"""C03 — the front end accepts or cleanly rejects every input, before running
anything (structural clauses)."""
import mir
import ops
import units
from framework import RuleResult
import c17

PROG_TY = "&ast::Prog"


def rule_R03_1(ctx):
    prog = ctx.prog
    r = RuleResult("R03.1", "the whole file is parsed before anything is "
                   "evaluated: the program evaluator runs only on the Ok "
                   "result of the parser, and the Err edge evaluates nothing",
                   "evaluating statements before the parse has succeeded "
                   "runs code of a file that is then rejected")
    evs = [f for f in prog.hand_fns() if not f.is_closure and not f.from_expansion and
           any(f.locals[i] == PROG_TY for i in range(1, f.arg_count + 1))]
    if not r.require_floor("program evaluator (takes &Prog)", len(evs), 1):
        return r
    ev = evs[0]
    callers = prog.callers_of(ev.path)
    if not r.require_floor("callers of the program evaluator", len(callers), 1):
        return r
    graph = prog.call_graph()
    reach_ev = {p for p in prog.fns if ev.path in prog.reachable_from([p], graph) or p == ev.path}
    import inline
    for c in callers:
        f = c.fn

        def parser_calls(fn_):
            return [d for d in fn_.calls() if "lalrpop_util::ParseError" in (d.dstty or "")
                    and not (d.declared or "").startswith("std::")]
        # parse and evaluation may live in sibling helpers of one driver
        # function: climb to the function whose (inlined) body does both
        for _ in range(3):
            if parser_calls(f):
                break
            up = {x.fn.root_fn().path for x in prog.callers_of(f.path)}
            if len(up) != 1:
                break
            g_ = prog.fns.get(next(iter(up)))
            if g_ is None or f.path not in inline.private_helpers(prog, g_):
                break
            def _keep_program_evaluator(call_, _ev=ev.path):
                return call_.res != _ev      # the evaluator itself stays a call
            f = inline.view(prog, g_, pick=_keep_program_evaluator)
        if f is not c.fn:
            cs_ = [d for d in f.calls() if not d.is_ptr and d.res == ev.path]
            if not cs_:
                r.unproven.append("%s: evaluator call not found in the inlined driver" % f.path)
                continue
            c = cs_[0]
        pi = [i for i, t in enumerate(c.argtys) if t == PROG_TY][0]
        cp = tuple(p for p in f.canon_op(c.args[pi]) if p not in ("&", "*"))
        # the Prog comes from a local defined on the Ok edge of the parse result
        parse = None
        ok_t = err_t = None
        pcs = parser_calls(f)
        tainted = ops.forward_taint(f, pcs[0]) if len(pcs) == 1 else set()
        transport_bbs = {pcs[0].bb} if len(pcs) == 1 else set()
        for d in f.calls():
            if d.dst is not None and d.dst[0] in tainted:
                transport_bbs.add(d.bb)
        for bb in f.rpo():
            if f.is_cleanup(bb) or f.term(bb)["k"] != "switch" or parse is not None:
                continue
            info = f.switch_info(bb)
            if not info or info["kind"] != "discr" or info["place"][0] not in tainted:
                continue
            names = dict(info["cases"])
            if not ({"Ok", "Err", "Continue", "Break"} & set(names)):
                continue
            parse = pcs[0]
            ok_t = names.get("Ok", names.get("Continue", info["otherwise"]))
            err_t = names.get("Err", names.get("Break", info["otherwise"]))
        if parse is None:
            r.fail("%s | no parse-result switch" % f.path,
                   "%s calls the program evaluator but does not branch on a parse result" % f.path, where=c.loc)
            continue
        r.inst("%s: parser call %s; evaluator call dominated by Ok edge: %s"
               % (f.path, parse.res, f.dominates(ok_t, c.bb)))
        if f.dominates(ok_t, c.bb) and f.dominates(parse.bb, c.bb):
            r.ok()
        else:
            r.fail("%s | evaluation not dominated by successful parse" % f.path,
                   "the program evaluator can run without the parser having "
                   "returned Ok", where=c.loc)
        # the evaluated Prog is the Ok payload
        src = None
        if cp and cp[0][0] == "local":
            ds = f.defs().get(cp[0][1], [])
            for (b2, i2, kind, payload) in ds:
                if kind == "rv" and payload[0] == "use" and mir.is_place_operand(payload[1]):
                    src = f.canon_op(payload[1])
        elif cp:
            src = cp
        good = src is not None and src[0][0] == "call" and src[0][1] in transport_bbs \
            and (("d", "Ok") in src or ("d", "Continue") in src)
        r.inst("%s: evaluated program is %s" % (f.path, src))
        if good:
            r.ok()
        else:
            r.fail("%s | evaluated program is not the parse result" % f.path,
                   "the Prog handed to the evaluator is not the Ok payload of the parser call", where=c.loc)
        # Err edge: no evaluator-reaching call, no other evaluator call before the parse
        err_region = f.reach_from(err_t, avoid=[ok_t])
        bad = [d for d in f.calls() if d.bb in err_region and not d.is_ptr and d.res in reach_ev]
        early = [d for d in f.calls() if not d.is_ptr and d.res in reach_ev and d.bb != c.bb
                 and not f.dominates(ok_t, d.bb)]
        if not bad and not early:
            r.ok()
        else:
            r.fail("%s | evaluation on the parse-error path" % f.path,
                   "%s can reach the evaluator (%s) without a successful parse"
                   % (f.path, [d.res for d in bad + early][:3]), where=(bad + early)[0].loc)
        # the parser is handed the whole input lexer (no statement-wise loop)
        if not f.in_any_loop(parse.bb) and not f.in_any_loop(c.bb):
            r.ok()
        else:
            r.fail("%s | parse/eval in a loop" % f.path,
                   "parsing and evaluation are interleaved in a loop")
    return r


def rule_R03_2(ctx):
    prog = ctx.prog
    r = RuleResult("R03.2", "the lexer and parser cannot reach the "
                   "evaluator, the builtins or stdout",
                   "a front end that evaluates or prints acts before the "
                   "file is known to be well-formed")
    graph = prog.call_graph()
    fronts = [p for p, f in prog.fns.items() if f.module.startswith(("lexer", "parser"))]
    r.require_floor("front-end functions", len(fronts), 100)
    reach = prog.reachable_from(fronts, graph)
    bad = sorted(p for p in reach if p.startswith(("eval::", "builtins::", "<eval::", "<builtins::"))
                 and not p.startswith(("eval::error", "<eval::error"))
                 or p.startswith(("std::io::_print", "std::io::_eprint", "std::process::exit")))
    # AST/value constructors derive impls live in ast::; eval::value is not front-end
    r.inst("%d front-end functions reach %d functions; forbidden: %s" % (len(fronts), len(reach), bad[:5]))
    if not bad:
        r.ok()
    else:
        # find one witness edge
        wit = None
        for p in fronts:
            rs = prog.reachable_from([p], graph)
            if bad[0] in rs:
                wit = p
                break
        r.fail("front-end reaches %s" % bad[0],
               "front-end function %s can reach %s" % (wit, bad[0]))
    return r


def rule_R03_3(ctx):
    r = units.rule_units(ctx, "R03.3")
    r.title = "the scanner/lexer slice the input only at byte offsets (unit discipline)"
    return r


def rule_R03_4(ctx):
    r = c17.rule_L5(ctx)
    r.rule = "R03.4"
    r.title = "a rejected file: exactly one diagnostic on stderr, exit 103, nothing on stdout"
    for v in r.violations:
        v.rule = "R03.4"
        v.key = v.key.replace("L5", "R03.4", 1)
    return r


def rule_R03_5(ctx):
    import c02
    r = c02.rule_R02_5(ctx)
    r.rule = "R03.5"
    r.title = "explicit panic sites of the front end are dead or carry a justification that still checks"
    r.necessary_for = "a reachable panic in the lexer aborts (exit 101) instead of rejecting the file"
    r.violations = [v for v in r.violations if "lexer" in v.key or "parser" in v.key]
    for v in r.violations:
        v.rule = "R03.5"
        v.key = v.key.replace("R02.5", "R03.5", 1)
    return r


def _not_unit_helper(call):
    """Inline token-scanning helpers, but not the whitespace/comment skipper
    (a helper that returns nothing consumes only ignorable characters)."""
    g = call.fn.prog.fns.get(call.res)
    return g is not None and bool(g.locals) and g.locals[0] != "()"


def rule_R03_6(ctx):
    import inline
    prog = ctx.prog
    r = RuleResult("R03.6", "the token scanner reports end of input only "
                   "before it has consumed anything: no path leads from a "
                   "consumed character to `None`",
                   "a character that is consumed and then answered with `None` "
                   "(end of the token stream) disappears: the rest of the "
                   "file is silently accepted")
    LEX_OPT = "std::option::Option<std::result::Result<"
    cands = [f for f in prog.hand_fns()
             if f.module.startswith("lexer") and not f.is_closure and not f.from_expansion
             and f.impl_trait is None and f.locals and f.locals[0].startswith(LEX_OPT)
             and "lexer::LexError" in f.locals[0]]
    roots = [f for f in cands
             if not any(f.path in inline.private_helpers(prog, g) for g in cands if g is not f)]
    n = 0
    for f0 in roots:
        f = inline.view(prog, f0, pick=_not_unit_helper)
        eats = [c.bb for c in f.calls() if not c.is_ptr and (c.res or "").split("::")[-1] in ("next_char", "next", "advance")
                and c.argtys and "Scanner" in c.argtys[0]]
        if not eats:
            continue
        n += 1
        rets = f.return_locals()
        nones = []
        for bb in f.reachable():
            for s_ in f.stmts(bb):
                if s_[0] == "=" and not s_[1][1] and s_[1][0] in rets and s_[2][0] == "agg" \
                        and s_[2][1].get("adt") == "std::option::Option" and s_[2][1].get("variant") == "None":
                    nones.append(bb)
            c = f.call_at(bb)
            if c is not None and (c.declared or "").endswith("FromResidual::from_residual") \
                    and c.dst is not None and c.dst[0] in rets and not c.dst[1] \
                    and c.argtys and c.argtys[0].startswith("std::option::Option<"):
                nones.append(bb)
        after_eat = set()
        for b in eats:
            for s2 in f.succs(b):
                after_eat |= f.reach_from(s2)
        bad = sorted(set(nones) & after_eat)
        r.inst("%s: %d consuming call(s), %d end-of-input return(s), %d of them after a consumed character"
               % (f0.path, len(eats), len(set(nones)), len(bad)))
        if not nones:
            r.unproven.append("%s: no end-of-input return recognised" % f0.path)
        elif not bad:
            r.ok()
        else:
            t = f.term(bad[0])
            r.fail("%s | end of input reported after consuming a character" % f0.path,
                   "%s can consume a character and then return `None` (end of "
                   "the token stream): that character is dropped and whatever "
                   "was lexed so far is accepted as the whole file" % f0.path,
                   where=mir.span_loc(t.get("span")) if t.get("span") else f0.path)
    r.require_floor("token scanners (Option<Result<_, LexError>>) that consume characters", n, 1)
    return r


def run(ctx):
    return [rule_R03_1(ctx), rule_R03_2(ctx), rule_R03_3(ctx), rule_R03_4(ctx), rule_R03_5(ctx),
            rule_R03_6(ctx)]


META = {
    "level": "other",
    "technique": "dominance of the parse result over evaluation, layering "
                 "(reachability in the resolved call graph), unit provenance "
                 "of scanner offsets, exit-path analysis of main",
    "trusted_base": ["rustc MIR", "the LALRPOP parser returns only after "
                     "consuming its token iterator to EOF or failing"],
    "assumptions": ["termination of the scanner loops, the `line <= "
                    "lines+1` bound and the diagnostic text are not decided"],
    "explanation": "Decides that nothing is evaluated before the whole file "
                   "has parsed, that the front end is layered below the "
                   "evaluator and stdout, that input slicing uses byte "
                   "offsets, and the shape of the rejection path in main.",
}
