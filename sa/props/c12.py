"""C12 — objects behave as string-keyed maps with deterministic key order."""
import re

import mir
import ops
from ops import VALUE, ERR
from framework import RuleResult
import c19

RAWEXPR = "ast::RawExpr"
MAP_METHODS = re.compile(r"std::collections::(btree_map::|BTreeMap|btree::map::)")


def rule_R12_1(ctx):
    r = c19.rule_R19_3(ctx)
    r.rule = "R12.1"
    for v in r.violations:
        v.rule = "R12.1"
        v.key = v.key.replace("R19.3", "R12.1", 1)
    return r


def arm_events(prog, f, vf, arm, obj_kind="Object"):
    """Skeleton of the code specific to variant `arm` of the tracked RawExpr
    (and, where a Value switch narrows further, to object operands): the set
    of map operations, local helper calls and error variants."""
    ev = set()
    for bb, st in vf.state.items():
        if not st or {t[0] for t in st} != {arm}:
            continue
        c = f.call_at(bb)
        if c is not None and not c.is_ptr:
            res = c.res or ""
            full = c.res_full or ""
            if "BTreeMap" in full or "btree" in res:
                name = res.split("::")[-1]
                if name in ("get", "get_mut", "insert", "remove", "contains_key", "entry"):
                    ev.add("map." + name)
            g = prog.fns.get(res)
            if g is not None and g.full and not g.is_closure and not g.from_expansion \
                    and g.module.startswith("eval"):
                ev.add("call." + res.split("::")[-1])
        # (errors built here, or by a closure/constructor handed to a
        # combinator called here: `.ok_or_else(|| Error::PropNotFound{..}.at(loc))`)
        for a_, v in ops.block_constructs(prog, f, bb):
            if a_ == ERR:
                ev.add("err." + v)
    return ev


def rule_R12_2(ctx):
    prog = ctx.prog
    r = RuleResult("R12.2", "`.k` and `[\"k\"]` agree: same map operation, "
                   "same missing-key handling, same `this` source (sibling "
                   "cross-check of reads and of assignments)",
                   "if the two spellings diverge, o.k and o[\"k\"] denote "
                   "different properties for some operation")
    # functions switching on a RawExpr parameter: the evaluator and the binder
    pairs = []
    import c11
    for f in c11.owner_fns(prog):
        if f.is_closure or f.from_expansion:
            continue
        sw = ops.arg_rooted_switches(f)
        ps = [cp for cp, e in sw.items() if e == RAWEXPR]
        if ps:
            pairs.append((f, ps[0]))
    found = 0
    for f, path in pairs:
        vf = mir.VariantFlow(f, [(path, RAWEXPR)])
        idx = arm_events(prog, f, vf, "Index")
        prop = arm_events(prog, f, vf, "Prop")
        if not idx or not prop:
            continue
        if not any(e.startswith("map.") for e in idx | prop):
            continue
        found += 1
        # restrict to object-related events; the index arm also serves
        # lists/strings and the prop arm type properties
        def norm(ev):
            out = set()
            for e in ev:
                if e.startswith("map."):
                    out.add(e)
                elif e.startswith("err."):
                    v = e[4:]
                    v = v.replace("OpOnUndefinedIndex", "OpOnUndefined").replace("OpOnUndefinedProp", "OpOnUndefined")
                    if v in ("PropNotFound", "OpOnUndefined"):
                        out.add("err." + v)
                elif e.startswith("call."):
                    n = e[5:]
                    if n in ("new_val_ref_with_source", "with_source", "binary_operation_assign"):
                        out.add(e)
            return out
        a, b = norm(idx), norm(prop)
        r.inst("%s: index-arm %s | prop-arm %s" % (f.path, sorted(a), sorted(b)))
        if a == b and a:
            r.ok()
        else:
            r.fail("%s | index-vs-prop only-index=%s only-prop=%s"
                   % (f.path, ",".join(sorted(a - b)), ",".join(sorted(b - a))),
                   "in %s the `[\"k\"]` arm and the `.k` arm treat object "
                   "properties differently: only in index arm %s; only in "
                   "prop arm %s" % (f.path, sorted(a - b), sorted(b - a)),
                   where=mir.span_loc(f.span))
    r.require_floor("functions with both an Index and a Prop arm over objects", found, 1)
    return r


def rule_R12_7(ctx):
    import anchors
    import inline
    import c14
    prog = ctx.prog
    r = RuleResult("R12.7", "a spread operand is copied where it is "
                   "evaluated: in a literal's item loop, every lock of a "
                   "list/object cell sits in a loop that also evaluates items",
                   "copying the spread operands in a second pass, after the "
                   "later entries were evaluated, makes `{x.., k: f()}` see "
                   "the writes `f()` makes to `x` (entries no longer take "
                   "effect in source order)")
    graph = prog.call_graph()
    evs = {g.path for g in c14.expr_evaluators(prog)}
    reach_ev = {p for p in prog.fns if evs & prog.reachable_from([p], graph)}
    bm, sm, vm = anchors.binder_module(prog), anchors.scope_module(prog), anchors.value_module(prog)
    n = 0
    seen = set()
    for f0 in prog.hand_fns():
        if f0.is_closure or f0.from_expansion or f0.generated:
            continue
        if f0.module.startswith((bm, sm, vm)) or f0.module.startswith("builtins") or f0.module == "":
            continue
        if any(f0.path in inline.private_helpers(prog, g) for g in prog.hand_fns()
               if g.path != f0.path and not g.is_closure and g.path in reach_ev):
            continue          # analysed inside its owner's view
        f = inline.view(prog, f0)
        loops = f.natural_loops()
        if not loops:
            continue
        outer = {h: b for h, b in loops.items() if not any(h in b2 and h2 != h for h2, b2 in loops.items())}
        ev_loops = {h for h, b in outer.items()
                    if any((not c.is_ptr) and c.res in reach_ev and c.bb in b for c in f.calls())}
        if not ev_loops:
            continue
        for c in f.calls():
            t = mir.mutex_locked_type(c)
            if t is None or "SourcedValue" not in t or "HashMap" in t:
                continue
            hs = [h for h, b in outer.items() if c.bb in b]
            if not hs:
                continue
            key = (f0.path, c.loc)
            if key in seen:
                continue
            seen.add(key)
            n += 1
            if hs[0] in ev_loops:
                r.ok()
            else:
                r.fail("%s | container copied outside the evaluating loop" % f0.path,
                       "%s locks a %s cell in a loop that evaluates nothing, "
                       "next to a loop that evaluates the items: operands are "
                       "copied in a later pass than the one that evaluated "
                       "them" % (f0.path, t.split("<")[0].split("::")[-1]), where=c.loc)
    r.inst("cell locks inside item loops of evaluating functions: %d" % n)
    r.require_floor("spread copies inside an evaluating loop", n, 2)
    return r


PROP_MAP = "BTreeMap<std::string::String, eval::value::SourcedValue>"


TRANSPORT_RE = re.compile(r"(^|::)(mem::take|mem::replace|clone|into_iter|iter|iter_mut|drain|"
                          r"to_owned|into|from|borrow_mut|deref_mut|deref)$")


def _merge_roots(f, operand, depth=0):
    """Canonical roots a merge operand may carry the contents of: the operand
    itself and, through `mem::take(&mut m)`, `m.clone()`, `m.into_iter()`..,
    the map those were applied to."""
    out = set()
    cp = f.canon_op(operand)
    if not cp:
        return out
    out.add(cp[0])
    if cp[0][0] == "call" and depth < 6:
        c = f.call_at(cp[0][1])
        if c is not None and not c.is_ptr and c.args and TRANSPORT_RE.search((c.res or "").split("<")[0].rstrip(":")) :
            out |= _merge_roots(f, c.args[0], depth + 1)
    return out


def rule_R12_9(ctx):
    """Direction of bulk merges into a property map that is being built.
    `a.append(&mut b)` / `a.extend(b)` let b's entries replace a's; an
    accumulator that already holds the earlier entries of a literal may
    therefore only ever be the receiver, never the argument."""
    import inline
    prog = ctx.prog
    r = RuleResult("R12.9", "entries take effect in source order: the map a "
                   "literal accumulates into is only ever the receiver of "
                   "`insert`/`append`/`extend`, never the operand folded "
                   "into another map",
                   "`other.append(&mut acc)` lets the entries collected so "
                   "far overwrite a later spread's (`{k: 1, big..}` keeps "
                   "`k: 1` although `big.k` comes later)")
    n_acc = 0
    n_bulk = 0
    for f0 in prog.hand_fns():
        if f0.is_closure or f0.from_expansion or f0.generated:
            continue
        f = inline.view(prog, f0)
        accs = set()
        bulk = []
        for c in f.calls():
            full = c.res_full or ""
            if c.is_ptr or "BTreeMap<" not in full.replace("BTreeMap::<", "BTreeMap<") or "SourcedValue" not in full:
                continue
            last = (c.res or "").split("::")[-1]
            if last == "insert" and c.args:
                cp = f.canon_op(c.args[0])
                if cp and cp[0][0] in ("local", "call"):
                    accs.add(cp[0])
            elif last in ("append", "extend") and len(c.args) > 1:
                bulk.append(c)
        n_acc += len(accs)
        for c in bulk:
            n_bulk += 1
            if _merge_roots(f, c.args[1]) & accs:
                r.fail("%s | accumulated entries folded into another map via %s" % (f0.path, (c.res or "").split("::")[-1]),
                       "%s passes the map it has been inserting into as the "
                       "*argument* of `%s`: the earlier entries then replace "
                       "the receiver's, inverting `later entry wins`"
                       % (f0.path, (c.res or "").split("::")[-1]), where=c.loc)
            else:
                r.ok()
    r.inst("property-map accumulators (receivers of insert): %d; bulk merges looked at: %d" % (n_acc, n_bulk))
    if not n_bulk:
        r.ok()
    r.require_floor("property-map accumulators", n_acc, 1)
    return r


def run(ctx):
    import c19 as _c19
    r3 = _c19.rule_R19_2(ctx)
    r3.rule = "R12.3"
    # iteration over the scope table is about variables, not object
    # properties: C19 judges it, C12 does not
    sm = __import__("anchors").scope_module(ctx.prog)
    keep = [v for v in r3.violations if ("| %s::" % sm) not in v.key and not v.key.split("| ")[1].startswith(sm + "::")]
    r3.obligations -= len(r3.violations) - len(keep)
    r3.violations = keep
    for v in r3.violations:
        v.rule = "R12.3"
        v.key = v.key.replace("R19.2", "R12.3", 1)
    import c05
    r4 = c05.rule_R05_3(ctx)
    r4.rule = "R12.4"
    r4.title = "every object value is built around a fresh map cell (an object literal, also a spread-only one, never aliases an operand)"
    r4.necessary_for = "an aliased literal makes a write to one object change another (`every other property unchanged` fails)"
    for v in r4.violations:
        v.rule = "R12.4"
        v.key = v.key.replace("R05.3", "R12.4", 1)
    r5 = c05.rule_R05_4(ctx)
    r5.rule = "R12.5"
    for v in r5.violations:
        v.rule = "R12.5"
        v.key = v.key.replace("R05.4", "R12.5", 1)
    r5.violations = [v for v in r5.violations if "Object" in v.key]
    import c02
    binders = {f.path for f in ctx.prog.hand_fns() if f.module.startswith(__import__("anchors").binder_module(ctx.prog))}
    r6 = c02.rule_R02_1(ctx, restrict_fns=binders, rule_id="R12.6")
    r6.title = ("property/index assignment never evaluates user code or locks "
                "the object while holding the object's lock (R02.1 on the binder)")
    r6.necessary_for = "`o[k] = v` with a key computed from `o` would abort instead of assigning"
    r6.inst("binder functions analysed: %d" % len(binders))
    import c16
    r8 = c16.rule_R16_8(ctx, "R12.8")
    r8.title = ("property names are computed by evaluating the name expression (no answer from its syntax alone)")
    import c11
    return [rule_R12_1(ctx), c11.with_views(rule_R12_2, ctx), r3, r4, r5, r6, rule_R12_7(ctx), r8, rule_R12_9(ctx)]


META = {
    "level": "other",
    "technique": "type facts on the object representation, sibling "
                 "cross-check of the two property-access arms via variant "
                 "decision tables, hash-order confinement",
    "trusted_base": ["rustc MIR", "std BTreeMap laws"],
    "assumptions": ["map laws (insert/get) are std behaviour; literal "
                    "evaluation order and later-entry-wins are not decided"],
    "explanation": "Decides that objects are ordered maps, that the two "
                   "spellings of property access share one implementation "
                   "skeleton for reads and writes, and that no hash-ordered "
                   "data reaches an object un-sorted.",
}
