"""A2 — guard liveness (typestate of MutexGuard locals) and lock effects."""
import re
from collections import deque

import mir

GUARD_RE = re.compile(r"std::sync::MutexGuard<'[^,>]*, ")


SCOPE_MAP_TY = [None]     # set by check once the program is loaded (anchors.scope_map_ty)


def short_ty(t):
    """Human-oriented name for the four cells of value.rs / scope.rs."""
    if t is None:
        return "?"
    if t.startswith("std::vec::Vec<eval::value::SourcedValue"):
        return "List"
    if t.startswith("std::collections::BTreeMap<std::string::String, eval::value::SourcedValue"):
        return "Object"
    if t.startswith("eval::value::Func"):
        return "Func"
    if t.startswith("std::collections::HashMap<std::string::String, (eval::value::SourcedValue") \
            or (SCOPE_MAP_TY[0] and t.startswith(SCOPE_MAP_TY[0])):
        return "Scope"
    return t


def guard_payload(ty):
    """T for a type that *is or contains* a MutexGuard<'_, T> (the first)."""
    m = GUARD_RE.search(ty)
    if not m:
        return None
    i = m.end()
    depth = 1
    j = i
    while j < len(ty) and depth > 0:
        if ty[j] == "<":
            depth += 1
        elif ty[j] == ">":
            depth -= 1
        j += 1
    return ty[i:j - 1]


def lock_effects(prog):
    """may_lock summary per function path: set of payload type strings."""
    def direct(f):
        out = set()
        if not f.full:
            for cj in f.j.get("calls", []):
                full = cj.get("res_full") or cj.get("full") or ""
                m = mir.MUTEX_RE.match(full)
                if m:
                    out.add(m.group(1))
            return out
        for c in f.calls():
            t = mir.mutex_locked_type(c)
            if t is not None:
                out.add(t)
        return out
    return prog.summarize(direct)


class GuardFlow:
    """Forward may-analysis: which guard-carrying locals are live (hold a
    lock) at each call terminator of a function."""

    def __init__(self, fn):
        self.fn = fn
        self.guards = {}
        for i, t in enumerate(fn.locals):
            p = guard_payload(t)
            if p is not None and not t.startswith("&"):
                self.guards[i] = p
        self.at_call = {}   # bb -> frozenset(held locals) just before the terminator
        if self.guards:
            self._run()

    def _moves_of(self, op):
        if op[0] == "mv":
            pl = op[1]
            if not pl[1] and pl[0] in self.guards:
                return pl[0]
        return None

    def _transfer_block(self, bb, held):
        fn = self.fn
        held = set(held)
        for s in fn.stmts(bb):
            if s[0] == "=":
                rv = s[2]
                moved = []
                for o in mir.rvalue_operands(rv):
                    m = self._moves_of(o)
                    if m is not None:
                        moved.append(m)
                for m in moved:
                    held.discard(m)
                dst = s[1]
                if not dst[1] and dst[0] in self.guards and moved:
                    held.add(dst[0])
                elif moved and dst[0] in self.guards:
                    held.add(dst[0])
            elif s[0] == "dead":
                held.discard(s[1])
        before_term = frozenset(held)
        t = fn.term(bb)
        after = set(held)
        if t["k"] == "call":
            for a in t["args"]:
                m = self._moves_of(a)
                if m is not None:
                    after.discard(m)
            dst = t["dst"]
            if not dst[1] and dst[0] in self.guards:
                after.add(dst[0])
        elif t["k"] == "drop":
            pl = t["place"]
            if not pl[1]:
                after.discard(pl[0])
        return before_term, frozenset(after)

    def _run(self):
        fn = self.fn
        state = {0: frozenset()}
        work = deque([0])
        while work:
            bb = work.popleft()
            st = state[bb]
            before, after = self._transfer_block(bb, st)
            self.at_call[bb] = before
            for s in fn.succs(bb):
                old = state.get(s)
                new = after if old is None else (old | after)
                if new != old:
                    state[s] = new
                    work.append(s)

    def held_at(self, bb):
        return self.at_call.get(bb, frozenset())


def backward_sources(fn, operand, stop_locals):
    """Intra-procedural backward slice of an operand: the set of roots it is
    computed from.  Roots: ('guard', local) for locals in stop_locals,
    ('arg', n), ('unknown-local', n).  Call results derive from all their
    arguments; constants contribute nothing."""
    roots = set()
    seen = set()
    st = []
    if mir.is_place_operand(operand):
        st.append(mir.op_place(operand)[0])
    while st:
        l = st.pop()
        if l in seen:
            continue
        seen.add(l)
        if l in stop_locals:
            roots.add(("guard", l))
            continue
        if 1 <= l <= fn.arg_count:
            roots.add(("arg", l))
            continue
        ds = fn.defs().get(l, []) + fn.partial_defs().get(l, [])
        if not ds:
            roots.add(("unknown-local", l))
            continue
        for (bb, idx, kind, payload) in ds:
            if kind == "call":
                for a in payload.args:
                    if mir.is_place_operand(a):
                        st.append(mir.op_place(a)[0])
            elif kind == "rv":
                for p in mir.rvalue_places(payload):
                    st.append(p[0])
                    for pr in p[1]:
                        if pr != "*" and pr[0] == "i":
                            st.append(pr[1])
    return roots


def refined_lock_effects(prog, base, ofn, op_path, pv, call_effect):
    """Lock effects where each call site of the operator function `ofn`
    contributes only the effects of the BinaryOp variants that can reach its
    `op` argument there (provenance query), instead of the union over all
    operators.  Returns (effects, eff_by_op, site_variants)."""
    import mir as _mir
    variants = prog.enum_variant_names("ast::BinaryOp")
    vf = _mir.VariantFlow(ofn, [(op_path, "ast::BinaryOp")])
    eff_by_op = {}
    for v in variants:
        e = set()
        for bb in vf.blocks_for((v,)):
            c = ofn.call_at(bb)
            if c is not None:
                e |= call_effect(prog, base, ofn, c)
        eff_by_op[v] = e
    ai = op_path[0][1] - 1
    site_variants = {}
    for c in prog.callers_of(ofn.path):
        o = pv.origins(c.fn, c.args[ai])
        vs = set()
        exact = True
        for x in o:
            if x[0] == "agg" and x[4] == "ast::BinaryOp":
                vs.add(x[5])
            elif x[0] in ("unknown", "param", "call", "op"):
                exact = False
        if not exact or not vs:
            vs = set(variants)
        site_variants[(c.fn.path, c.bb)] = vs

    def site_effect(c):
        out = set()
        for v in site_variants.get((c.fn.path, c.bb), variants):
            out |= eff_by_op.get(v, set())
        return out

    eff = {p: set() for p in prog.fns}
    changed = True
    while changed:
        changed = False
        for p, f in prog.fns.items():
            cur = eff[p]
            n = len(cur)
            if not f.full:
                cur |= base.get(p, set())
            else:
                for c in f.calls():
                    if c.is_ptr:
                        for q in prog.fnptr_targets(c):
                            cur |= eff.get(q, set())
                        continue
                    t = _mir.mutex_locked_type(c)
                    if t is not None:
                        cur.add(t)
                    if c.res == ofn.path:
                        cur |= site_effect(c)
                    else:
                        cur |= eff.get(c.res, set())
                # closures / fn items created here run on behalf of this fn
                for q in prog.callees(f):
                    g = prog.fns.get(q)
                    if g is not None and (g.is_closure and g.parent == f.root_fn().path):
                        cur |= eff.get(q, set())
                for c in f.calls():
                    for a in c.args:
                        k = _mir.op_const(a)
                        if k and "fn" in k:
                            cur |= eff.get(k["fn"], set())
            if len(cur) != n:
                changed = True
    return eff, eff_by_op, site_variants
