"""E1 front end: obtain the MIR fact file for a source tree (default /repo).

Facts are extracted by the `seedfacts` rustc_private driver injected as
RUSTC_WORKSPACE_WRAPPER under `cargo +nightly check --offline`.  Nothing of the
analysed program is executed.  The cache key is the content hash of every build
input of the tree, so a check never reuses facts of a different tree.
"""
import fcntl
import glob
import hashlib
import json
import os
import shutil
import subprocess
import sys
import tempfile
import time

VERIF = os.path.dirname(os.path.dirname(os.path.abspath(__file__)))
CACHE = os.path.join(VERIF, ".cache")
DRIVER_DIR = os.path.join(VERIF, "sa", "seedfacts")
DRIVER = os.path.join(DRIVER_DIR, "target", "release", "seedfacts")


class BuildFailure(Exception):
    pass


def _sysroot():
    return subprocess.check_output(
        ["rustc", "+nightly", "--print", "sysroot"], text=True).strip()


def ensure_driver():
    src = os.path.join(DRIVER_DIR, "src", "main.rs")
    if (not os.path.exists(DRIVER)
            or os.path.getmtime(DRIVER) < os.path.getmtime(src)):
        env = dict(os.environ, CARGO_NET_OFFLINE="true")
        r = subprocess.run(
            ["cargo", "build", "--release", "--offline"], cwd=DRIVER_DIR,
            env=env, stdout=subprocess.PIPE, stderr=subprocess.STDOUT, text=True)
        if r.returncode != 0:
            raise BuildFailure("driver build failed:\n" + r.stdout[-4000:])
    return DRIVER


def tree_inputs(repo):
    files = []
    for root, dirs, fs in os.walk(os.path.join(repo, "src")):
        dirs.sort()
        for f in sorted(fs):
            files.append(os.path.join(root, f))
    for f in ("build.rs", "Cargo.toml", "Cargo.lock"):
        p = os.path.join(repo, f)
        if os.path.exists(p):
            files.append(p)
    return files


def tree_hash(repo):
    h = hashlib.sha256()
    for p in tree_inputs(repo):
        rel = os.path.relpath(p, repo)
        h.update(rel.encode())
        h.update(b"\0")
        with open(p, "rb") as fh:
            h.update(fh.read())
        h.update(b"\0")
    with open(os.path.join(DRIVER_DIR, "src", "main.rs"), "rb") as fh:
        h.update(fh.read())
    return h.hexdigest()[:24]


def _run_driver(repo, target_dir, out_dir, crates="seed", extra_env=None):
    env = dict(os.environ)
    env.update({
        "LD_LIBRARY_PATH": os.path.join(_sysroot(), "lib"),
        "RUSTFLAGS": "-Zmir-opt-level=0 -Awarnings",
        "RUSTC_WORKSPACE_WRAPPER": DRIVER,
        "SEEDFACTS_OUT": out_dir,
        "SEEDFACTS_CRATES": crates,
        "CARGO_TARGET_DIR": target_dir,
        "CARGO_NET_OFFLINE": "true",
    })
    if extra_env:
        env.update(extra_env)
    r = subprocess.run(
        ["cargo", "+nightly", "check", "--offline", "--bins"], cwd=repo, env=env,
        stdout=subprocess.PIPE, stderr=subprocess.STDOUT, text=True)
    return r


def _forget_members(target_dir, names=("seed",)):
    """Make cargo re-run the wrapper for workspace members (its freshness cache
    would otherwise skip the driver and replay old output)."""
    for n in names:
        for pat in (".fingerprint/%s-*" % n, "build/%s-*" % n,
                    "deps/%s-*" % n, "deps/lib%s-*" % n):
            for p in glob.glob(os.path.join(target_dir, "debug", pat)):
                if os.path.isdir(p):
                    shutil.rmtree(p, ignore_errors=True)
                else:
                    try:
                        os.unlink(p)
                    except OSError:
                        pass


def extract(repo="/repo", force=False, warm=True, quiet=False):
    """Return (facts_path, parser_rs_path, meta).  Raises BuildFailure when the
    tree does not compile."""
    os.makedirs(CACHE, exist_ok=True)
    ensure_driver()
    key = tree_hash(repo)
    facts_path = os.path.join(CACHE, "facts-%s.json" % key)
    parser_path = os.path.join(CACHE, "parser-%s.rs" % key)
    meta = {"tree_hash": key, "cached": True, "extract_s": 0.0}
    # fast path without the extraction lock: both files are put in place
    # atomically (facts first, parser last), so their presence means complete
    if not force and os.path.exists(parser_path) and os.path.exists(facts_path):
        try:
            os.utime(facts_path, None)      # LRU for _prune_cache
        except OSError:
            pass
        return facts_path, parser_path, meta
    lock = open(os.path.join(CACHE, "lock"), "w")
    fcntl.flock(lock, fcntl.LOCK_EX)
    try:
        if (not force and os.path.exists(facts_path)
                and os.path.exists(parser_path)):
            return facts_path, parser_path, meta
        t0 = time.time()
        out_dir = tempfile.mkdtemp(prefix="seedfacts-out-")
        fresh_target = None
        if warm:
            target_dir = os.path.join(CACHE, "target")
            _forget_members(target_dir)
        else:
            fresh_target = tempfile.mkdtemp(prefix="seedfacts-target-")
            target_dir = fresh_target
        try:
            r = _run_driver(repo, target_dir, out_dir)
            if r.returncode != 0:
                raise BuildFailure(
                    "cargo +nightly check failed for %s:\n%s"
                    % (repo, r.stdout[-6000:]))
            produced = os.path.join(out_dir, "seed.facts.json")
            if not os.path.exists(produced):
                raise BuildFailure(
                    "driver produced no fact file (wrapper skipped?)\n"
                    + r.stdout[-3000:])
            # the generated parser (build.rs -> LALRPOP -> OUT_DIR/parser.rs)
            cands = glob.glob(os.path.join(
                target_dir, "debug", "build", "seed-*", "out", "parser.rs"))
            if len(cands) != 1:
                raise BuildFailure(
                    "expected exactly one generated parser.rs, found %d"
                    % len(cands))
            tmp_f = facts_path + ".tmp%d" % os.getpid()
            shutil.copyfile(produced, tmp_f)
            os.replace(tmp_f, facts_path)
            tmp_p = parser_path + ".tmp%d" % os.getpid()
            shutil.copyfile(cands[0], tmp_p)
            os.replace(tmp_p, parser_path)
        finally:
            shutil.rmtree(out_dir, ignore_errors=True)
            if fresh_target:
                shutil.rmtree(fresh_target, ignore_errors=True)
        meta["cached"] = False
        meta["extract_s"] = round(time.time() - t0, 2)
        _prune_cache(keep=key)
        return facts_path, parser_path, meta
    finally:
        fcntl.flock(lock, fcntl.LOCK_UN)
        lock.close()


def _prune_cache(keep, max_files=48):
    fs = sorted(glob.glob(os.path.join(CACHE, "facts-*.json")),
                key=os.path.getmtime)
    for p in fs[:-max_files]:
        if keep in p:
            continue
        k = os.path.basename(p)[len("facts-"):-len(".json")]
        for q in (p, os.path.join(CACHE, "parser-%s.rs" % k)):
            try:
                os.unlink(q)
            except OSError:
                pass


def extract_crate(crate_dir, crate_name):
    """Extract facts for a stand-alone control crate (fresh target dir)."""
    ensure_driver()
    out_dir = tempfile.mkdtemp(prefix="seedfacts-out-")
    target = tempfile.mkdtemp(prefix="seedfacts-target-")
    try:
        r = _run_driver(crate_dir, target, out_dir, crates=crate_name,
                        extra_env={"SEEDFACTS_FULL": "all"})
        if r.returncode != 0:
            raise BuildFailure("control crate failed:\n" + r.stdout[-4000:])
        p = os.path.join(out_dir, "%s.facts.json" % crate_name)
        with open(p) as fh:
            return json.load(fh)
    finally:
        shutil.rmtree(out_dir, ignore_errors=True)
        shutil.rmtree(target, ignore_errors=True)


# The vocabulary the properties are stated in.  The rules name these types by
# these paths; when a clean-up moves one of them into a submodule (and
# re-exports it) the facts are renamed back to the canonical path, so that a
# moved type is still the same anchor.  A type that disappears or becomes
# ambiguous is left alone and the affected rules fail closed.
VOCABULARY = (
    "lexer::Token", "lexer::LexError", "lexer::InterpSlot",
    "ast::RawExpr", "ast::Stmt", "ast::BinaryOp", "ast::ListItem", "ast::PropItem", "ast::Branch",
    "eval::value::Value", "eval::value::SourcedValue", "eval::error::Error",
    "eval::scope::ScopeStack", "eval::Escape", "eval::bind::BindType",
    "eval::EvaluationContext",
)


def vocabulary_renames(facts):
    have = {a["path"] for a in facts.get("adts", [])}
    ren = {}
    for p in VOCABULARY:
        if p in have:
            continue
        root, name = p.split("::")[0], p.split("::")[-1]
        cands = [q for q in have if q.endswith("::" + name) and q.split("::")[0] == root]
        if len(cands) == 1:
            ren[cands[0]] = p
    return ren


def load(repo="/repo", force=False, warm=True):
    fp, pp, meta = extract(repo, force=force, warm=warm)
    with open(fp) as fh:
        text = fh.read()
    facts = json.loads(text)
    if facts.get("crate") != "seed":
        raise BuildFailure("fact file does not carry the seed crate marker")
    ren = vocabulary_renames(facts)
    if ren:
        import re as _re
        for q, p in sorted(ren.items(), key=lambda kv: -len(kv[0])):
            text = _re.sub(r"(?<![A-Za-z0-9_:])" + _re.escape(q) + r"(?![A-Za-z0-9_])", p, text)
        facts = json.loads(text)
        meta = dict(meta or {}, vocabulary_renames=ren)
    with open(pp) as fh:
        parser_rs = fh.read()
    return facts, parser_rs, meta


if __name__ == "__main__":
    repo = sys.argv[1] if len(sys.argv) > 1 else "/repo"
    fp, pp, meta = extract(repo, force="--force" in sys.argv)
    print(fp, pp, meta)
