"""Inlined views (bounded MIR inlining, DESIGN §9.5).

Several rules are anchored on one function by its *shape* (the operator
function switches on an operator and two values; the statement evaluator holds
the loops; the lexer's `next` consults the continuation table ...).  A routine
clean-up that moves an arm into a private helper keeps the behaviour but
spreads the shape over several functions.  `view(prog, f)` rebuilds the shape:
it returns a synthetic `Fn` in which calls to *private helpers* of `f` are
replaced by the helper's body (locals and blocks renumbered, parameters
assigned from the arguments, `return` turned into an assignment of the
destination plus a jump to the call's continuation).

A private helper of `f` is a hand-written, non-closure function of the crate
all of whose call sites lie in `f` or in other private helpers of `f`
(call-graph dominance), so inlining it loses no caller.  Recursion is cut: a
function is never inlined into (a copy of) itself.  Bounds: depth <= 4,
<= 6000 blocks; past a bound the call is simply left in place.

Every intra-procedural analysis (CFG, dominators, VariantFlow, canonical paths,
provenance of locals) then runs unchanged on the view.  Nothing is executed.
"""
import copy

import mir

MAX_DEPTH = 4
MAX_BLOCKS = 6000


def private_helpers(prog, root):
    """Functions dominated by `root` in the call graph (see module doc)."""
    memo = getattr(prog, "_private_helpers", None)
    if memo is None:
        memo = prog._private_helpers = {}
    if root.path in memo:
        return memo[root.path]
    # candidates: everything reachable from root through direct calls
    callers = {}
    for g in prog.fns.values():
        if not g.full:
            # summaries: callee paths only
            for q in g.j.get("calls", []):
                p = q.get("res") or q.get("def") if isinstance(q, dict) else None
                if p:
                    callers.setdefault(p, set()).add(g.path)
            continue
        owner = g.root_fn().path if g.is_closure else g.path
        for c in g.calls():
            if c.is_ptr or not c.res:
                continue
            callers.setdefault(c.res, set()).add(owner)
        # function items used as values escape: treat as called from anywhere
        for bb in range(len(g.blocks)):
            for s in g.stmts(bb):
                if s[0] != "=":
                    continue
                for o in mir.rvalue_operands(s[2]):
                    k = mir.op_const(o)
                    if k and "fn" in k:
                        callers.setdefault(k["fn"], set()).add("<value>")
            t = g.term(bb)
            if t["k"] == "call":
                for o in t["args"]:
                    k = mir.op_const(o)
                    if k and "fn" in k:
                        callers.setdefault(k["fn"], set()).add("<value>")
    members = {root.path}
    changed = True
    while changed:
        changed = False
        for p, cs in callers.items():
            if p in members:
                continue
            g = prog.fns.get(p)
            if g is None or not g.full or g.is_closure or g.generated or g.from_expansion:
                continue
            if cs and all(c in members or c == p for c in cs) and any(c in members for c in cs):
                members.add(p)
                changed = True
    members.discard(root.path)
    memo[root.path] = members
    return members


def _remap_place(pl, lo):
    projs = []
    for p in pl[1]:
        if p != "*" and p[0] == "i":
            projs.append(["i", p[1] + lo])
        else:
            projs.append(p)
    return [pl[0] + lo, projs]


def _remap_operand(op, lo, po):
    if op[0] in ("cp", "mv"):
        return [op[0], _remap_place(op[1], lo)]
    if op[0] == "k" and "promoted" in op[1]:
        c = dict(op[1])
        c["promoted"] = c["promoted"] + po
        return ["k", c]
    return op


def _remap_rvalue(rv, lo, po):
    k = rv[0]
    ro = lambda o: _remap_operand(o, lo, po)
    if k in ("use", "repeat", "wub"):
        return [k, ro(rv[1])] + list(rv[2:])
    if k == "ref":
        return [k, rv[1], _remap_place(rv[2], lo)]
    if k == "addr":
        return [k, rv[1], _remap_place(rv[2], lo)]
    if k == "cast":
        return [k, rv[1], ro(rv[2])] + list(rv[3:])
    if k == "bin":
        return [k, rv[1], ro(rv[2]), ro(rv[3])] + list(rv[4:])
    if k == "un":
        return [k, rv[1], ro(rv[2])] + list(rv[3:])
    if k == "discr":
        return [k, _remap_place(rv[1], lo)] + list(rv[2:])
    if k == "agg":
        return [k, rv[1], [ro(o) for o in rv[2]]]
    if k == "cfd":
        return [k, _remap_place(rv[1], lo)]
    return rv


def _remap_stmt(s, lo, po):
    if s[0] == "=":
        return ["=", _remap_place(s[1], lo), _remap_rvalue(s[2], lo, po)] + list(s[3:])
    if s[0] == "setdiscr":
        return ["setdiscr", _remap_place(s[1], lo)] + list(s[2:])
    if s[0] in ("live", "dead"):
        return [s[0], s[1] + lo]
    return s


def _remap_term(t, lo, bo, po):
    t = dict(t)
    k = t["k"]
    rb = lambda b: None if b is None else b + bo
    if k == "goto":
        t["t"] = rb(t["t"])
    elif k == "switch":
        t["on"] = _remap_operand(t["on"], lo, po)
        t["targets"] = [[v, rb(b)] for v, b in t["targets"]]
        t["else"] = rb(t["else"])
    elif k == "drop":
        t["place"] = _remap_place(t["place"], lo)
        t["t"] = rb(t["t"])
        t["cleanup"] = rb(t.get("cleanup"))
    elif k == "call":
        t["args"] = [_remap_operand(o, lo, po) for o in t["args"]]
        t["dst"] = _remap_place(t["dst"], lo)
        t["t"] = rb(t.get("t"))
        t["cleanup"] = rb(t.get("cleanup"))
        cal = t["callee"]
        if "ptr" in cal:
            cal = dict(cal)
            if isinstance(cal["ptr"], list):
                cal["ptr"] = _remap_operand(cal["ptr"], lo, po) if cal["ptr"] and cal["ptr"][0] in ("cp", "mv", "k") \
                    else cal["ptr"]
            t["callee"] = cal
    elif k == "tailcall":
        t["args"] = [_remap_operand(o, lo, po) for o in t["args"]]
    elif k == "assert":
        t["cond"] = _remap_operand(t["cond"], lo, po)
        t["ops"] = [_remap_operand(o, lo, po) for o in t["ops"]]
        t["t"] = rb(t["t"])
        t["cleanup"] = rb(t.get("cleanup"))
    return t


def is_accessor(g):
    """A small leaf function that inspects one enum behind a reference and
    answers with an Option/bool/reference (`Value::as_int(&self) ->
    Option<i64>`): safe and useful to inline wherever it is called, because
    the kind test it hides is what the decision tables are made of."""
    if g is None or not g.full or g.is_closure or g.generated or g.from_expansion:
        return False
    if len(g.blocks) > 16 or g.natural_loops() or g.arg_count != 1:
        return False
    if not g.locals or not g.locals[1].startswith("&"):
        return False
    rt = g.locals[0]
    if not (rt.startswith("std::option::Option<") or rt == "bool"):
        return False
    if any(not c.is_ptr and c.res in g.prog.fns and g.prog.fns[c.res].full for c in g.calls()):
        return False
    for bb in range(len(g.blocks)):
        if g.term(bb)["k"] == "switch":
            info = g.switch_info(bb)
            if info and info["kind"] == "discr" and g.canon(info["place"])[0] == ("arg", 1):
                return True
    return False


def is_classifier(g):
    """A small leaf function that maps one enum value (taken by value or by
    reference) to another value by switching on its variant
    (`loop_step(Escape) -> LoopStep`): the decision it hides belongs to the
    caller's table, so it is inlined wherever it is called."""
    if g is None or not g.full or g.is_closure or g.generated or g.from_expansion:
        return False
    if len(g.blocks) > 24 or g.natural_loops() or g.arg_count != 1 or g.impl_trait is not None:
        return False
    a = g.prog.adts.get(g.locals[1].replace("&mut ", "").replace("&", "")) if len(g.locals) > 1 else None
    if not a or len(a.get("variants", [])) < 2:
        return False
    if any(not c.is_ptr and c.res in g.prog.fns and g.prog.fns[c.res].full for c in g.calls()):
        return False
    for bb in range(len(g.blocks)):
        if g.term(bb)["k"] == "switch":
            info = g.switch_info(bb)
            if info and info["kind"] == "discr" and g.canon(info["place"])[0] == ("arg", 1):
                return True
    return False


def is_small_leaf(g):
    """A small, loop-free, hand-written function that calls nothing in the
    crate (`Params::arity(&self) -> Arity`, `collects_at(&self, i) -> bool`):
    a decision or a measure factored out of its caller, inlined on request
    (`leaves=True`) so that guard relations can be read across it."""
    if g is None or not g.full or g.is_closure or g.generated or g.from_expansion or g.impl_trait is not None:
        return False
    if len(g.blocks) > 24 or g.natural_loops() or not (1 <= g.arg_count <= 3):
        return False
    if any(c.is_ptr or (c.res in g.prog.fns and g.prog.fns[c.res].full) for c in g.calls()):
        return False
    return True


def shared_helpers(prog):
    """Hand-written helpers that several functions share and that hold no
    decision table over the AST of their own (`container::get_list_item`,
    `resolve_list_assign_range`, `list_len` ...): small, not used as values,
    not switching on an `ast::` enum parameter, and not reaching an evaluator.
    Inlined on request (`shared=True`) so that a bounds rule moved into such a
    helper is read in the context of each function that relies on it."""
    memo = getattr(prog, "_shared_helpers", None)
    if memo is not None:
        return memo
    import ops
    graph = prog.call_graph()
    evs = set()
    for f in prog.hand_fns():
        if f.is_closure or f.from_expansion:
            continue
        if any(str(e).startswith("ast::") for e in ops.arg_rooted_switches(f).values()):
            evs.add(f.path)
    out = set()
    taken = prog.addr_taken()
    import anchors
    # (the scope and value modules are vocabulary: their functions are what
    # rules look for, so they stay calls)
    keep_calls = (anchors.scope_module(prog), anchors.value_module(prog), "eval::error", "lexer", "builtins")
    for g in prog.hand_fns():
        if g.is_closure or g.from_expansion or g.generated or g.impl_trait is not None or not g.module:
            continue
        if g.module.startswith(keep_calls):
            continue
        if g.path in evs or g.path in taken or len(g.blocks) > 80 or not g.locals:
            continue
        if "eval::Escape" in g.locals[0]:
            continue
        if evs & prog.reachable_from([g.path], graph):
            continue
        out.add(g.path)
    prog._shared_helpers = out
    return out


COMBINATORS = {
    # Option<T> combinators whose meaning is a two-way match on the receiver:
    # name -> value answered for None (the Some side calls the closure)
    "std::option::Option::<T>::is_some_and": False,
    "std::option::Option::<T>::is_none_or": True,
}


def _option_payload(ty):
    if ty.startswith("std::option::Option<") and ty.endswith(">"):
        return ty[len("std::option::Option<"):-1]
    return None


def _expand_combinator(prog, root, blocks, locals_, origin, bb, none_value):
    """Rewrite `dst = opt.is_some_and(closure)` in block bb into
    `match opt { None => false, Some(x) => closure(x) }` (blocks appended)."""
    b = blocks[bb]
    t = b["t"]
    if len(t["args"]) != 2 or t["args"][0][0] not in ("cp", "mv") or t["args"][0][1][1]:
        return False
    if t["args"][1][0] not in ("cp", "mv") or t.get("t") is None:
        return False
    opt_local = t["args"][0][1][0]
    opt_ty = locals_[opt_local]
    T = _option_payload(opt_ty)
    if T is None:
        return False
    # the closure handed in must be a closure value built in this function
    clo_local = t["args"][1][1][0]
    clo_ty = locals_[clo_local]
    clo_def = None
    for blk in blocks:
        for st in blk["s"]:
            if st[0] == "=" and st[1] == [clo_local, []] and st[2][0] == "agg" and st[2][1].get("k") == "closure":
                clo_def = st[2][1].get("def")
    if clo_def is None or clo_def not in prog.fns:
        return False
    span = t.get("span")
    d, x, tup = len(locals_), len(locals_) + 1, len(locals_) + 2
    locals_.extend(["isize", T, "(%s,)" % T])
    prog.enums.setdefault(opt_ty, [[0, "None"], [1, "Some"]])
    n0 = len(blocks)
    b_none, b_some, b_unr = n0, n0 + 1, n0 + 2
    b["s"].append(["=", [d, []], ["discr", [opt_local, []], opt_ty], span])
    b["t"] = {"k": "switch", "on": ["mv", [d, []]], "ty": "isize",
              "targets": [[0, b_none], [1, b_some]], "else": b_unr, "span": span}
    blocks.append({"s": [["=", t["dst"], ["use", ["k", {"ty": "bool", "v": none_value}]], span]],
                   "t": {"k": "goto", "t": t["t"]}, "cleanup": False})
    fld = ["f", 0, T, "0", "std::option::Option", "Some"]
    blocks.append({"s": [["=", [x, []], ["use", ["mv", [opt_local, [["d", "Some", 1], fld]]]], span],
                         ["=", [tup, []], ["agg", {"k": "tuple"}, [["mv", [x, []]]]], span]],
                   "t": {"k": "call",
                         "callee": {"def": "std::ops::FnOnce::call_once", "full": "std::ops::FnOnce::call_once",
                                    "trait": "std::ops::FnOnce", "res": clo_def, "res_full": clo_def,
                                    "res_kind": "item", "res_local": True, "resolved": True},
                         "args": [["mv", [clo_local, []]], ["mv", [tup, []]]],
                         "argtys": [clo_ty, "(%s,)" % T], "dst": t["dst"], "dstty": t.get("dstty"),
                         "t": t["t"], "cleanup": None, "span": span},
                   "cleanup": False})
    blocks.append({"s": [], "t": {"k": "unreachable"}, "cleanup": False})
    origin.extend([origin[bb]] * 3)
    return True


FN_TRAIT_CALLS = ("std::ops::FnOnce::call_once", "std::ops::FnMut::call_mut", "std::ops::Fn::call")


def callback_helpers(prog):
    """Hand-written functions that take a callback (`impl FnOnce(..)`
    parameter): generic plumbing such as `eval_expr_as(.., narrow, new_err)`.
    Inlined on request (`callbacks=True`) together with the callbacks their
    callers hand them (function items or closures), which devirtualises the
    `narrow(v)` calls inside."""
    memo = getattr(prog, "_callback_helpers", None)
    if memo is not None:
        return memo
    out = set()
    for g in prog.hand_fns():
        if g.is_closure or g.from_expansion or g.generated or g.impl_trait is not None or len(g.blocks) > 80:
            continue
        if any(t.startswith("impl Fn") or t.startswith("&impl Fn") or t.startswith("&mut impl Fn")
               for t in g.locals[1:g.arg_count + 1]):
            out.add(g.path)
    prog._callback_helpers = out
    return out


def _resolve_callable(prog, blocks, local, limit=10):
    """What a local holding a callable was built from: ('fn', path) for a
    function item, ('closure', def path) for a closure value, else None."""
    for _ in range(limit):
        defs = []
        for blk in blocks:
            for st in blk["s"]:
                if st[0] == "=" and st[1] == [local, []]:
                    defs.append(st[2])
        if len(defs) != 1:
            return None
        rv = defs[0]
        if rv[0] == "use":
            o = rv[1]
            if o[0] == "k":
                return ("fn", o[1]["fn"]) if "fn" in o[1] else None
            if o[1][1]:
                return None
            local = o[1][0]
            continue
        if rv[0] == "agg" and rv[1].get("k") == "closure":
            return ("closure", rv[1].get("def"))
        if rv[0] == "ref" and not rv[2][1]:
            local = rv[2][0]
            continue
        return None
    return None


def view(prog, root, pick=None, depth=MAX_DEPTH, accessors=False, classifiers=False, closures=False,
         leaves=False, combinators=False, shared=False, callbacks=False):
    """Synthetic Fn: `root` with its private helpers inlined.  `pick(call)`
    may veto individual call sites; with `accessors`, small kind-test
    accessors (`is_accessor`) are inlined as well, wherever they are called.
    Returns `root` itself when nothing was inlined."""
    key = (root.path, depth, getattr(pick, "__name__", None), accessors, classifiers, closures, leaves,
           combinators, shared, callbacks)
    memo = getattr(prog, "_views", None)
    if memo is None:
        memo = prog._views = {}
    if key in memo:
        return memo[key]
    helpers = set(private_helpers(prog, root))
    if accessors:
        helpers |= {p for p, g in prog.fns.items() if is_accessor(g)}
    always = set()
    if classifiers:
        always = {p for p, g in prog.fns.items() if p != root.path and is_classifier(g)}
        helpers |= always
    if leaves:
        lv = {p for p, g in prog.fns.items() if p != root.path and is_small_leaf(g)}
        always |= lv
        helpers |= lv
    if shared:
        sh = {p for p in shared_helpers(prog) if p != root.path}
        always |= sh
        helpers |= sh
    if callbacks:
        cb = {p for p in callback_helpers(prog) if p != root.path}
        always |= cb
        helpers |= cb
    if closures:
        helpers |= {g.path for g in prog.fns.values() if g.full and g.is_closure
                    and (g.root_fn().path == root.path or g.root_fn().path in helpers)}
    if (not helpers and not combinators) or not root.full:
        memo[key] = root
        return root
    j = dict(root.j)
    locals_ = list(root.locals)
    blocks = [dict(b) for b in root.blocks]
    for b in blocks:
        b["s"] = list(b["s"])
    promoted = list(j.get("promoted") or [])
    debug = list(j.get("debug") or [])
    origin = [(root.path,)] * len(blocks)     # chain of inlined functions per block
    inlined = []
    work = list(range(len(blocks)))
    while work:
        bb = work.pop(0)
        b = blocks[bb]
        t = b["t"]
        if b["cleanup"] or t["k"] != "call" or "ptr" in t["callee"]:
            continue
        callee = t["callee"].get("res") or t["callee"].get("def")
        if callbacks and callee in FN_TRAIT_CALLS and len(t["args"]) == 2 \
                and t["args"][0][0] in ("cp", "mv") and not t["args"][0][1][1]:
            # a call through a callback parameter of an inlined helper:
            # resolve it to the function item or closure that was handed in
            tgt = _resolve_callable(prog, blocks, t["args"][0][1][0])
            g2 = prog.fns.get(tgt[1]) if tgt else None
            if g2 is not None and g2.full and not g2.generated and len(g2.blocks) <= 60:
                t = dict(t)
                cal = dict(t["callee"])
                cal.update({"res": g2.path, "res_full": g2.path, "res_kind": "item", "res_local": True,
                            "resolved": True})
                if tgt[0] == "fn" and t["args"][1][0] in ("cp", "mv"):
                    tp = t["args"][1][1]
                    cal["def"] = g2.path
                    cal.pop("trait", None)
                    t["args"] = [["mv", [tp[0], list(tp[1]) + [["f", i, g2.locals[1 + i], "", "", ""]]]]
                                 for i in range(g2.arg_count)]
                    t["argtys"] = [g2.locals[1 + i] for i in range(g2.arg_count)]
                t["callee"] = cal
                b["t"] = t
                helpers.add(g2.path)
                always.add(g2.path)
                callee = g2.path
        if combinators and callee in COMBINATORS and len(blocks) + 3 <= MAX_BLOCKS:
            if _expand_combinator(prog, root, blocks, locals_, origin, bb, COMBINATORS[callee]):
                inlined.append(callee)
                work.extend(range(len(blocks) - 3, len(blocks)))
                continue
        g = prog.fns.get(callee)
        if g is None or callee not in helpers or not g.full:
            continue
        chain = origin[bb]
        if callee in chain or len(chain) > depth or len(blocks) + len(g.blocks) > MAX_BLOCKS:
            continue
        is_clo = g.is_closure
        if is_clo:
            # rust-call ABI: (environment, tuple of arguments)
            if not closures or len(t["args"]) != 2 or (g.arg_count > 1 and t["args"][1][0] not in ("cp", "mv")):
                continue
        elif len(t["args"]) != g.arg_count:
            continue
        if pick is not None and not (accessors and is_accessor(g)) and callee not in always \
                and not pick(mir.Call(root, bb, t)):
            continue
        lo, bo, po = len(locals_), len(blocks), len(promoted)
        locals_.extend(g.locals)
        promoted.extend(g.j.get("promoted") or [])
        for name, pl in g.j.get("debug", []):
            debug.append([name, _remap_place(pl, lo)])
        span = t.get("span")
        # argument passing
        if is_clo:
            b["s"].append(["=", [lo + 1, []], ["use", t["args"][0]], span])
            for i in range(g.arg_count - 1):
                tp = t["args"][1][1]
                fld = ["f", i, g.locals[2 + i], "", "", ""]
                b["s"].append(["=", [lo + 2 + i, []], ["use", ["cp", [tp[0], list(tp[1]) + [fld]]]], span])
        else:
            for i, a in enumerate(t["args"]):
                b["s"].append(["=", [lo + 1 + i, []], ["use", a], span])
        dst, cont = t["dst"], t.get("t")
        b["t"] = {"k": "goto", "t": bo}
        for gb in g.blocks:
            nb = {"s": [_remap_stmt(s, lo, po) for s in gb["s"]],
                  "t": _remap_term(gb["t"], lo, bo, po),
                  "cleanup": gb["cleanup"]}
            if gb["t"]["k"] == "return":
                nb["s"].append(["=", dst, ["use", ["mv", [lo, []]]], span])
                nb["t"] = {"k": "goto", "t": cont} if cont is not None else {"k": "unreachable"}
            blocks.append(nb)
            origin.append(chain + (callee,))
            work.append(len(blocks) - 1)
        inlined.append(callee)
    if not inlined:
        memo[key] = root
        return root
    j["locals"] = locals_
    j["blocks"] = blocks
    j["promoted"] = promoted
    j["debug"] = debug
    v = mir.Fn(j, prog)
    v.is_view = True
    v.members = {root.path} | set(inlined)
    v.origin = origin
    v.base = root
    memo[key] = v
    return v


def origin_of(f, bb):
    """Path of the function a block of a view came from."""
    o = getattr(f, "origin", None)
    if o is None or bb >= len(o):
        return f.path
    return o[bb][-1]
