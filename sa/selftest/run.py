#!/usr/bin/env python3
"""Both-ways self-test: apply catalogue entries to scratch worktrees of /repo
(outside /repo and /verif, removed afterwards) and run checks against them.

usage: run.py [--only NAME_SUBSTR] [--props C02,C08] [--refactors] [--jobs N]
Nothing of the interpreter is executed; each entry needs one fact extraction."""
import json
import os
import shutil
import subprocess
import sys
import tempfile
from concurrent.futures import ThreadPoolExecutor

HERE = os.path.dirname(os.path.abspath(__file__))
VERIF = os.path.dirname(os.path.dirname(HERE))
sys.path.insert(0, HERE)
import catalog  # noqa: E402


def claimed():
    with open(os.path.join(VERIF, "MANIFEST.json")) as fh:
        return [c["property_id"] for c in json.load(fh)["checks"]]


def run_entry(entry, props, kind):
    w = tempfile.mkdtemp(prefix="seedst-")
    ev = tempfile.mkdtemp(prefix="seedst-ev-")
    res = {"name": entry["name"], "kind": kind, "fired": {}, "error": None}
    try:
        subprocess.run(["git", "-C", "/repo", "worktree", "add", "--detach", w, "HEAD"],
                       check=True, stdout=subprocess.DEVNULL, stderr=subprocess.DEVNULL)
        if entry.get("base"):
            bp = os.path.join(VERIF, entry["base"])
            rb = subprocess.run(["git", "-C", w, "apply", bp], stderr=subprocess.PIPE, text=True)
            if rb.returncode != 0:
                res["error"] = "base patch does not apply: " + rb.stderr[-200:]
                return res
        for (rel, old, new) in entry["edits"]:
            p = os.path.join(w, rel)
            s = open(p).read()
            if s.count(old) != 1:
                res["error"] = "edit anchor occurs %d times in %s" % (s.count(old), rel)
                return res
            open(p, "w").write(s.replace(old, new, 1))
        env = dict(os.environ, VERIF_EVIDENCE_DIR=ev, VERIF_REPLAY_DIR=ev)
        for pid in props:
            r = subprocess.run([os.path.join(VERIF, "check"), pid, "--repo", w],
                               cwd=VERIF, env=env, stdout=subprocess.PIPE,
                               stderr=subprocess.STDOUT, text=True)
            if r.returncode == 2:
                res["error"] = "does not build: " + r.stdout[-600:]
                return res
            rules = []
            try:
                e = json.load(open(os.path.join(ev, pid + ".json")))
                for rr in e["coverage"]["rules"]:
                    if rr["violations"]:
                        rules.append(rr["rule"])
            except Exception as ex:  # noqa
                res["error"] = "no evidence for %s: %s %s" % (pid, ex, r.stdout[-300:])
                return res
            if rules:
                res["fired"][pid] = rules
        return res
    finally:
        subprocess.run(["git", "-C", "/repo", "worktree", "remove", "--force", w],
                       stdout=subprocess.DEVNULL, stderr=subprocess.DEVNULL)
        shutil.rmtree(w, ignore_errors=True)
        shutil.rmtree(ev, ignore_errors=True)
        subprocess.run(["git", "-C", "/repo", "worktree", "prune"],
                       stdout=subprocess.DEVNULL, stderr=subprocess.DEVNULL)


def main():
    args = sys.argv[1:]
    only = None
    props = None
    jobs = 4
    do_ref = "--refactors" in args
    for i, a in enumerate(args):
        if a == "--only":
            only = args[i + 1]
        if a == "--props":
            props = args[i + 1].split(",")
        if a == "--jobs":
            jobs = int(args[i + 1])
    all_props = claimed()
    entries = [(m, "mutant") for m in catalog.M] + ([(r, "refactor") for r in catalog.R] if do_ref or only else [])
    if only:
        entries = [(e, k) for (e, k) in entries if only in e["name"]]
    bad = 0
    results = []

    def work(ek):
        e, k = ek
        ps = props or (sorted(set(p for p, _ in e.get("expect", []))) if k == "mutant" and "--matrix" not in args else all_props)
        return run_entry(e, ps, k), e, k
    # fact extraction is serialised by a lock; a few workers overlap the rest
    with ThreadPoolExecutor(max_workers=jobs) as ex:
        for res, e, k in ex.map(work, entries):
            results.append(res)
            if res["error"]:
                print("ERROR  %-45s %s" % (res["name"], res["error"]))
                bad += 1
                continue
            if k == "mutant":
                missing = [(p, r) for (p, r) in e["expect"] if r not in res["fired"].get(p, [])]
                status = "caught" if not missing else "MISSED %s" % missing
                if missing:
                    bad += 1
                print("%-7s %-45s fired=%s" % (status.split()[0], res["name"], res["fired"]) + ("" if not missing else "  " + status))
            else:
                status = "silent" if not res["fired"] else "FALSE-ALARM"
                if res["fired"]:
                    bad += 1
                print("%-7s %-45s fired=%s" % (status, res["name"], res["fired"]))
    with open(os.path.join(VERIF, "sa", "selftest", "last_results.json"), "w") as fh:
        json.dump(results, fh, indent=1)
    return 1 if bad else 0


if __name__ == "__main__":
    sys.exit(main())
