"""Mutant and refactor catalogues for the both-ways self-test.

Each entry edits /repo's working tree copy by exact string replacement
(file, old, new).  `expect` lists (property, rule) pairs that must report a
violation; every other check run on the mutant must stay silent unless listed
in `also`.  REFACTORS are behaviour-preserving edits: every check must stay
silent on them."""

M = []
R = []


def mutant(name, edits, expect, also=(), note="", base=None):
    """`base`: a kept refactor patch (refactors/<name>/patch.diff) applied
    first, so the mutation is made to the refactored shape of the code."""
    M.append({"name": name, "edits": edits, "expect": list(expect),
              "also": list(also), "note": note, "base": base})


def refactor(name, edits, note=""):
    R.append({"name": name, "edits": edits, "note": note})


G = "src/parser.lalrpop"
E = "src/eval/mod.rs"
B = "src/eval/bind.rs"
L = "src/lexer/mod.rs"
MAIN = "src/main.rs"

# ---- C08 ---------------------------------------------------------------------
mutant("c08-mod-to-additive-tier",
       [(G, '    "+" => BinaryOp::Sum,\n    "-" => BinaryOp::Sub,\n};',
            '    "+" => BinaryOp::Sum,\n    "-" => BinaryOp::Sub,\n    "%" => BinaryOp::Mod,\n};'),
        (G, '    "/" => BinaryOp::Div,\n    "%" => BinaryOp::Mod,\n', '    "/" => BinaryOp::Div,\n')],
       [("C08", "R08.1")], note="`%` moved to the + - tier")
mutant("c08-swap-lhs-rhs-in-tier-action",
       [(G, "            lhs: Box::new((l, l_loc)),\n            rhs: Box::new((r, r_loc)),",
            "            lhs: Box::new((r, r_loc)),\n            rhs: Box::new((l, l_loc)),")],
       [("C08", "R08.2")])
mutant("c08-lte-maps-to-lt",
       [(G, '    "<=" => BinaryOp::Lte,', '    "<=" => BinaryOp::Lt,')],
       [("C08", "R08.2")])
mutant("c08-right-recursive-additive",
       [(G, "pub ExprPrecedence3 = ExprTier<ExprOp3, ExprPrecedence4>;",
            "pub ExprPrecedence3: RawExpr = {\n    <l_loc:@L> <l:ExprPrecedence4> <op_loc:@L> <op:ExprOp3> <r_loc:@L> <r:ExprPrecedence3> =>\n        RawExpr::BinaryOp{op, op_loc, lhs: Box::new((l, l_loc)), rhs: Box::new((r, r_loc))},\n    ExprPrecedence4\n};")],
       [("C08", "R08.1")], note="+ - made right-associative")
mutant("c08-lexer-le-as-lt",
       [(L, "        ('<', '=') => Some(Token::LessThanEquals),", "        ('<', '=') => Some(Token::LessThan),")],
       [("C08", "R08.3")])
refactor("c08-tiers-without-macro",
         [(G, "pub ExprPrecedence3 = ExprTier<ExprOp3, ExprPrecedence4>;",
              "pub ExprPrecedence3: RawExpr = {\n    <l_loc:@L> <l:ExprPrecedence3> <op_loc:@L> <op:ExprOp3> <r_loc:@L> <r:ExprPrecedence4> =>\n        RawExpr::BinaryOp{op, op_loc, lhs: Box::new((l, l_loc)), rhs: Box::new((r, r_loc))},\n    ExprPrecedence4\n};")],
         note="additive tier written out without the ExprTier macro")

mutant("c02-unguarded-drain-in-range-read",
       [(E, "    if let Some(vs) = s.get(*start .. *end) {\n        return Ok(value::new_str(vs.to_vec()));\n    }",
            "    if *end <= s.len() {\n        let mut t = s.clone();\n        t.truncate(*end);\n        t.drain(..*start);\n        return Ok(value::new_str(t));\n    }")],
       [("C11", "R11.2")], also=[("C02", "R02.4")], note="range read by truncate+drain without start<=end")

mutant("c02-unguarded-split-off",
       [(E, "    if let Some(vs) = s.get(*start .. *end) {\n        return Ok(value::new_str(vs.to_vec()));\n    }",
            "    let mut t = s.clone();\n    let _tail = t.split_off(*end);\n    if let Some(vs) = s.get(*start .. *end) {\n        return Ok(value::new_str(vs.to_vec()));\n    }")],
       [("C02", "R02.4")], note="panicking split_off before the bounds lookup")

# ---- C09 ---------------------------------------------------------------------
mutant("c09-drop-mod-from-continuations",
       [(L, "                    Token::Mod |\n", "")],
       [("C09", "R09.1")])
mutant("c09-add-dotdot-to-continuations",
       [(L, "                    Token::Dot |\n", "                    Token::Dot |\n                    Token::DotDot |\n")],
       [("C09", "R09.1")])
mutant("c09-cr-is-terminator",
       [(L, "            if c == '\\n' || c == ';' {\n                self.scanner.next_char();",
            "            if c == '\\n' || c == ';' || c == '\\r' {\n                self.scanner.next_char();"),
        (L, "                if c == '\\n' || !c.is_ascii_whitespace() {", "                if c == '\\n' || c == '\\r' || !c.is_ascii_whitespace() {")],
       [("C09", "R09.2")])
mutant("c09-block-last-stmt-without-terminator",
       [(G, 'pub Block: Block = {\n    "{" <stmts:Stmt*> "}" => stmts,\n}',
            'pub Block: Block = {\n    "{" <stmts:Stmt*> "}" => stmts,\n    "{" <mut stmts:Stmt*> <last:RawStmt> "}" => { stmts.push(last); stmts },\n}')],
       [("C09", "R09.3")], note="may be rejected by LALRPOP as ambiguous")
refactor("c09-continuation-list-as-matches",
         [(L, "            if let Some(t) = last_token {\n                match t {",
              "            if let Some(t) = last_token {\n                #[allow(clippy::match_like_matches_macro)]\n                match t {")],
         note="attribute only")

# ---- C07 ---------------------------------------------------------------------
mutant("c07-for-continue-breaks",
       [(E, "                    Escape::Break{..} => break,\n                    Escape::Continue{..} => continue,\n                    Escape::Return{..} => return Ok(escape),\n                }\n            }\n        },\n\n        Stmt::Break{loc} => {",
            "                    Escape::Break{..} => break,\n                    Escape::Continue{..} => break,\n                    Escape::Return{..} => return Ok(escape),\n                }\n            }\n        },\n\n        Stmt::Break{loc} => {")],
       [("C07", "R07.2")])
mutant("c07-while-swallows-return",
       [(E, "                    Escape::Continue{..} => continue,\n                    Escape::Return{..} => return Ok(escape),\n                }\n            }\n        },\n\n        Stmt::For",
            "                    Escape::Continue{..} => continue,\n                    Escape::Return{..} => break,\n                }\n            }\n        },\n\n        Stmt::For")],
       [("C07", "R07.2")])
mutant("c07-else-drops-escape",
       [(E, "                let v = eval_stmts_in_new_scope(context, scopes, stmts)\n                    .context(EvalElseStatementsFailed)?;\n\n                return Ok(v);",
            "                eval_stmts_in_new_scope(context, scopes, stmts)\n                    .context(EvalElseStatementsFailed)?;")],
       [("C07", "R07.1")])
mutant("c07-sequence-continues-after-break",
       [(E, "        match v {\n            Escape::None => {},\n            _ => return Ok(v),\n        }",
            "        match v {\n            Escape::None | Escape::Continue{..} => {},\n            _ => return Ok(v),\n        }")],
       [("C07", "R07.3")])
mutant("c07-call-break-is-null",
       [(E, "                            Escape::Break{loc: (line, col)} =>\n                                Err(Error::AtLoc{\n                                    source: Box::new(Error::BreakOutsideLoop),\n                                    line,\n                                    col,\n                                }),",
            "                            Escape::Break{..} =>\n                                Ok(value::new_null()),")],
       [("C07", "R07.4")])
mutant("c07-for-recomputes-pairs",
       [(E, "            for (key, value) in pairs {\n                let pair = value::new_list(vec![key, value]);",
            "            for (i, _) in pairs.iter().enumerate() {\n                let cur_val = eval_expr(context, scopes, iter)\n                    .context(EvalForIterFailed)?;\n                let cur = value_to_pairs(&cur_val.v)\n                    .context(ConvertForIterToPairsFailed)?;\n                if i >= cur.len() { break; }\n                let (key, value) = cur[i].clone();\n                let pair = value::new_list(vec![key, value]);")],
       [("C07", "R07.6")])
mutant("c07-prog-return-ok",
       [(E, "        Escape::Return{loc, ..} => {\n            let (line, col) = loc;\n\n            Err(Error::AtLoc{\n                source: Box::new(Error::ReturnOutsideFunction),\n                line,\n                col,\n            })\n        },",
            "        Escape::Return{..} => Ok(()),")],
       [("C07", "R07.5")])
refactor("c07-while-as-loop-with-early-continue",
         [(E, "                match escape {\n                    Escape::None => {},\n                    Escape::Break{..} => break,\n                    Escape::Continue{..} => continue,\n                    Escape::Return{..} => return Ok(escape),\n                }\n            }\n        },\n\n        Stmt::For",
              "                if let Escape::Break{..} = escape {\n                    break;\n                }\n                if let Escape::Return{..} = escape {\n                    return Ok(escape);\n                }\n            }\n        },\n\n        Stmt::For")],
         note="same table written with if-lets")

# ---- C05 ---------------------------------------------------------------------
mutant("c05-list-plus-extends-left-operand",
       [(E, "                    let a = lock_deref!(a).clone();\n                    let b = lock_deref!(b).clone();\n\n                    Ok(Value::List(Arc::new(Mutex::new([a, b].concat()))))",
            "                    let b = lock_deref!(b).clone();\n                    lock_deref!(a).extend(b);\n\n                    Ok(Value::List(a.clone()))")],
       [("C05", "R05.1"), ("C05", "R05.3")])
mutant("c05-full-slice-returns-same-list",
       [(E, "    let end = maybe_end.get_or_insert(lock_deref!(list).len());\n\n    if let Some(vs) = lock_deref!(list).get(*start .. *end) {",
            "    let end = maybe_end.get_or_insert(lock_deref!(list).len());\n\n    if *start == 0 && *end == lock_deref!(list).len() {\n        return Ok(value::new_val_ref_with_no_source(Value::List(list.clone())));\n    }\n\n    if let Some(vs) = lock_deref!(list).get(*start .. *end) {")],
       [("C05", "R05.3")], note="xs[:] aliases xs")
mutant("c05-single-spread-literal-returns-operand",
       [(E, "            let vals = eval_list_items(context, scopes, items)\n                .context(EvalListItemsFailed)?;\n\n            Ok(value::new_list(vals))",
            "            if items.len() == 1 && items[0].is_spread {\n                let v = eval_expr(context, scopes, &items[0].expr)\n                    .context(EvalListItemFailed)?;\n                if let Value::List(_) = v.v {\n                    return Ok(value::new_val_ref_with_no_source(v.v));\n                }\n            }\n\n            let vals = eval_list_items(context, scopes, items)\n                .context(EvalListItemsFailed)?;\n\n            Ok(value::new_list(vals))")],
       [("C05", "R05.4")], note="[ys..] returns ys itself")

# ---- C19 / C12 -----------------------------------------------------------------
mutant("c19-bind-rest-in-hash-order",
       [(B, "                    let new_rhs: BTreeMap<String, SourcedValue> =\n                        remaining_keys\n                            .iter()\n                            .map(|k| (\n                                k.clone(),\n                                lock_deref!(rhs)[k].clone(),\n                            ))\n                            .collect();",
            "                    let mut new_rhs: BTreeMap<String, SourcedValue> = BTreeMap::new();\n                    let mut first_key = String::new();\n                    for k in remaining_keys.iter() {\n                        if first_key.is_empty() { first_key = k.clone(); }\n                        new_rhs.insert(k.clone(), lock_deref!(rhs)[k].clone());\n                    }\n                    let _ = first_key;")],
       [("C19", "R19.2")], note="hash-ordered iteration consumed in order by a loop")
mutant("c19-env-var-debug-mode",
       [(MAIN, "    let mut scopes = ScopeStack::new(vec![]);",
               "    if env::var(\"SEED_TRACE\").is_ok() {\n        eprintln!(\"trace: running {}\", cur_script_path.display());\n    }\n    let mut scopes = ScopeStack::new(vec![]);")],
       [("C19", "R19.1")])
mutant("c19-identity-by-address-print",
       [("src/builtins/fns.rs", "            s += &format!(\"<function '{name:?}'>\");", "            s += &format!(\"<function '{name:?}' at {:p}>\", Arc::as_ptr(&f));"),
        ("src/builtins/fns.rs", "use snafu::ResultExt;", "use snafu::ResultExt;\nuse std::sync::Arc;")],
       [("C19", "R19.4")])
mutant("c12-prop-assign-inserts-even-with-op",
       [(B, "                    let name = name.clone();\n\n                    if op.is_some() {\n                        return new_loc_err(Error::OpOnUndefinedProp{name});\n                    }\n\n                    lock_deref!(props).insert(name, rhs);",
            "                    let name = name.clone();\n\n                    lock_deref!(props).insert(name, rhs);")],
       [("C12", "R12.2")], note="o.k += v on a missing key silently inserts")
refactor("c09-table-in-bool-helper",
         [(L, "            if let Some(t) = last_token {\n                match t {\n                    Token::AmpAmp |", "            if let Some(t) = last_token {\n                if !continues_stmt(&t) {\n                    return Some(Ok(span));\n                }\n            }\n        }\n    }\n}\n\nfn continues_stmt(t: &Token) -> bool {\n                match t {\n                    Token::AmpAmp |"),
          (L, "                    Token::SumEquals => {},\n                    _ => {\n                        return Some(Ok(span));\n                    },\n                }\n            }\n        }\n    }\n}", "                    Token::SumEquals => true,\n                    _ => false,\n                }\n}")],
         note="continuation table moved into a bool helper consulted by next()")

# ---- C20 ---------------------------------------------------------------------
mutant("c20-underscore-test-after-name-set",
       [(B, "    if name == \"_\" {\n        return Ok(())\n    }\n\n    let (line, col) = name_loc;",
            "    let (line, col) = name_loc;"),
        (B, "    names_in_binding.insert(name.to_string());\n\n    match bind_type {",
            "    names_in_binding.insert(name.to_string());\n\n    if name == \"_\" {\n        return Ok(())\n    }\n\n    match bind_type {")],
       [("C20", "R20.1")], note="[_, _] := xs now fails as a duplicate name")
mutant("c20-declare-overwrites",
       [("src/eval/scope.rs", "        if let Some((_, loc)) = cur_scope.get(name) {\n            return Err(*loc);\n        }\n\n", "")],
       [("C20", "R20.2")])
mutant("c20-literal-param-accepted",
       [(E, "            RawExpr::Int{..} =>\n                return new_invalid_bind_error(\"an integer literal\"),\n            RawExpr::Str{..} =>\n                return new_invalid_bind_error(\"a string literal\"),\n            RawExpr::BinaryOp{..} =>\n                return new_invalid_bind_error(\"a binary operation\"),\n            RawExpr::Range{..} =>\n                return new_invalid_bind_error(\"a range operation\"),\n            RawExpr::Func{..} =>\n                return new_invalid_bind_error(\"an anonymous function\"),\n            RawExpr::Call{..} =>\n                return new_invalid_bind_error(\"a function call\"),\n        }\n    }\n\n    Ok(())\n}\n\n// `value_to_pairs`",
            "            RawExpr::Int{..} => {},\n            RawExpr::Str{..} =>\n                return new_invalid_bind_error(\"a string literal\"),\n            RawExpr::BinaryOp{..} =>\n                return new_invalid_bind_error(\"a binary operation\"),\n            RawExpr::Range{..} =>\n                return new_invalid_bind_error(\"a range operation\"),\n            RawExpr::Func{..} =>\n                return new_invalid_bind_error(\"an anonymous function\"),\n            RawExpr::Call{..} =>\n                return new_invalid_bind_error(\"a function call\"),\n        }\n    }\n\n    Ok(())\n}\n\n// `value_to_pairs`")],
       [("C20", "R20.3")])
mutant("c20-assign-falls-back-to-declare",
       [(B, "            if !scopes.assign(name, rhs_val) {\n                return new_loc_error(Error::Undefined{\n                    name: name.to_string(),\n                });\n            }",
            "            if !scopes.assign(name, rhs_val.clone()) {\n                let _ = scopes.declare(name, *name_loc, rhs_val);\n            }")],
       [("C20", "R20.4")])

# ---- C04 ---------------------------------------------------------------------
mutant("c04-dynamic-scoping-in-call",
       [(E, "            CallBinding::Func{bindings, mut closure, stmts} => {\n                eval_stmts(\n                    context,\n                    &mut closure,",
            "            CallBinding::Func{bindings, closure: _closure, stmts} => {\n                eval_stmts(\n                    context,\n                    scopes,")],
       [("C04", "R04.3")], note="function bodies run on the caller's chain")
mutant("c04-anon-fn-captures-empty-chain",
       [(E, "        RawExpr::Func{args, collect_args, stmts} => {\n            let closure = scopes.clone();",
            "        RawExpr::Func{args, collect_args, stmts} => {\n            let closure = ScopeStack::new(vec![]);")],
       [("C04", "R04.1")])
mutant("c04-block-without-new-scope",
       [(E, "        Stmt::Block{block} => {\n            let v = eval_stmts_in_new_scope(context, scopes, block)",
            "        Stmt::Block{block} => {\n            let v = eval_stmts_with_scope_stack(context, scopes, block)")],
       [("C04", "R04.4")], note="bare-block declarations leak into the enclosing scope")
mutant("c04-deep-copying-scope-clone",
       [("src/eval/scope.rs", "#[derive(Clone, Debug)]\npub struct ScopeStack(Vec<Arc<Mutex<Scope>>>);",
         "#[derive(Debug)]\npub struct ScopeStack(Vec<Arc<Mutex<Scope>>>);\n\nimpl Clone for ScopeStack {\n    fn clone(&self) -> Self {\n        ScopeStack(self.0.iter().map(|s| Arc::new(Mutex::new(s.try_lock().unwrap().clone()))).collect())\n    }\n}")],
       [("C04", "R04.2")], note="closures capture by value")

# ---- C14 ---------------------------------------------------------------------
mutant("c14-params-assigned-not-declared",
       [(E, "        bind::bind(context, &mut new_scopes, &lhs, rhs, BindType::Declaration)\n            .context(BindFailed)?;",
            "        let bt = if new_scopes.get(&\"this\".to_string()).is_some() { BindType::Assignment } else { BindType::Declaration };\n        bind::bind(context, &mut new_scopes, &lhs, rhs, bt)\n            .context(BindFailed)?;")],
       [("C14", "R14.4")])
mutant("c14-this-keeps-previous-source",
       [(E, "                    Ok(value::new_val_ref_with_source(v, source_val.v.clone()))",
            "                    Ok(value::new_val_ref_with_source(\n                        v,\n                        source_val.source.clone().unwrap_or(source_val.v.clone()),\n                    ))")],
       [("C14", "R14.2")], note="o.inner[\"f\"]() gets `this` = o instead of o.inner")
mutant("c14-callee-evaluated-twice-for-builtins",
       [(E, "    let (func_name, v) =\n        {\n            let SourcedValue{v, source} = func_val;",
            "    let func_val =\n        if let Value::BuiltinFunc{..} = func_val.v {\n            eval_expr(context, scopes, func)\n                .context(EvalCallFuncFailed)?\n        } else {\n            func_val\n        };\n\n    let (func_name, v) =\n        {\n            let SourcedValue{v, source} = func_val;")],
       [("C14", "R14.1")])

# ---- C11 ---------------------------------------------------------------------
mutant("c11-elem-assign-off-by-one",
       [(B, "                    if n >= lock_deref!(items).len() {", "                    if n > lock_deref!(items).len() {")],
       [("C11", "R11.3")])
mutant("c11-range-assign-allows-empty-range",
       [(B, "    } else if start >= end {", "    } else if start > end {")],
       [("C11", "R11.4")])
mutant("c11-range-assign-drops-count-check",
       [(B, "    let range_len = end - start;\n    if range_len != rhs_len {\n        return new_loc_err(Error::RangeIndexItemMismatch{\n            range_len,\n            rhs_len,\n        });\n    }\n", "")],
       [("C11", "R11.4")])
mutant("c11-range-assign-end-defaults-len-minus-one",
       [(B, "        } else {\n            list_len\n        };", "        } else {\n            list_len - 1\n        };")],
       [("C11", "R11.5")])
mutant("c11-negative-index-test-inclusive",
       [(E, "    if index < 0 {\n        return new_loc_err(Error::NegativeIndex{index});", "    if index <= 0 {\n        return new_loc_err(Error::NegativeIndex{index});")],
       [("C11", "R11.1")], note="index 0 rejected (tests would catch; table check)")
refactor("c11-guard-written-negated",
         [(B, "                    if n >= lock_deref!(items).len() {", "                    if !(n < lock_deref!(items).len()) {")],
         note="same test written as !(n < len)")

# ---- C13 ---------------------------------------------------------------------
mutant("c13-collect-too-few-off-by-one",
       [(B, "        if lhs_len-1 > rhs_len {", "        if lhs_len > rhs_len {")],
       [("C13", "R13.1")], note="[a, ..rest] := [1] rejected")
mutant("c13-args-at-least-n",
       [(E, "                        let minimum = num_params-1;", "                        let minimum = num_params;")],
       [("C13", "R13.1")])
mutant("c13-nested-object-gets-fresh-name-set",
       [(B, "    bind_next(context, scopes, names_in_binding, lhs, new_rhs, None, bind_type)\n        .context(BindNextFailed)?;",
            "    bind_next(context, scopes, &mut HashSet::new(), lhs, new_rhs, None, bind_type)\n        .context(BindNextFailed)?;")],
       [("C13", "R13.2")], note="{a, \"k\": {a}} := o no longer rejected")
mutant("c13-pair-arm-forgets-to-remove-key",
       [(B, "                    .context(BindObjectPairFailed)?;\n\n                remaining_keys.remove(&prop_name);", "                    .context(BindObjectPairFailed)?;")],
       [("C13", "R13.3")], note="{\"k\": b, ..rest} := o keeps k in rest")

# ---- C03 / C15 -----------------------------------------------------------------
mutant("c03-statementwise-parse-and-run",
       [(MAIN, "    eval::eval_prog(\n        &EvaluationContext{\n            builtins: &Builtins{\n                std: Arc::new(Mutex::new(BTreeMap::new())),\n                type_functions: type_functions::type_functions(),\n            },\n            cur_script_dir,\n        },\n        &mut scopes,\n        global_bindings.clone(),\n        &ast,\n    )\n        .context(EvalFailed{path: cur_rel_script_path})?;",
               "    let ectx = EvaluationContext{\n        builtins: &Builtins{\n            std: Arc::new(Mutex::new(BTreeMap::new())),\n            type_functions: type_functions::type_functions(),\n        },\n        cur_script_dir,\n    };\n    // evaluate top-level statements one at a time\n    let ast::Prog::Body{stmts} = &ast;\n    for stmt in stmts {\n        let one = ast::Prog::Body{stmts: vec![stmt.clone()]};\n        eval::eval_prog(&ectx, &mut scopes, global_bindings.clone(), &one)\n            .context(EvalFailed{path: cur_rel_script_path})?;\n    }")],
       [("C03", "R03.1")], note="evaluation split per statement (each in its own root scope)")
mutant("c03-lexer-prints-debug",
       [(L, "    fn next_token(&mut self) -> Option<Result<Span, LexError>> {\n        self.skip_whitespace_and_comments();",
            "    fn next_token(&mut self) -> Option<Result<Span, LexError>> {\n        self.skip_whitespace_and_comments();\n        if self.scanner.index == usize::MAX {\n            println!(\"lexer overflow\");\n        }")],
       [("C03", "R03.2"), ("C17", "L6")])
mutant("c15-ident-end-from-char-counter",
       [(L, "        let start = self.scanner.index;\n        while let Some(c) = self.scanner.peek_char() {\n            if !c.is_ascii_alphanumeric() && c != '_' {\n                break;\n            }\n            self.scanner.next_char();\n        }\n        let end = self.scanner.index;\n\n        let t = self.scanner.range(start, end);\n\n        match t {",
            "        let start = self.scanner.index;\n        let mut seen: Vec<char> = vec![];\n        while let Some(c) = self.scanner.peek_char() {\n            if !c.is_ascii_alphanumeric() && c != '_' {\n                break;\n            }\n            seen.push(c);\n            self.scanner.next_char();\n        }\n        let end = start + seen.len();\n\n        let t = self.scanner.range(start, end);\n\n        match t {")],
       [("C15", "R15.1"), ("C03", "R03.3"), ("C02", "R02.3")], note="harmless for ASCII identifiers; pattern check")

# ---- general behaviour-preserving refactors ------------------------------------
refactor("gen-rename-private-helpers",
         [(E, "fn value_to_pairs(v: &Value)", "fn iterable_to_pairs(v: &Value)"),
          (E, "            let pairs = value_to_pairs(&iter_val.v)", "            let pairs = iterable_to_pairs(&iter_val.v)"),
          (E, "// `value_to_pairs` returns", "// `iterable_to_pairs` returns")],
         note="rename a private function")
refactor("gen-extract-while-arm-helper",
         [(E, """        Stmt::While{cond, stmts} => {
            loop {
                let b = eval_expr_to_bool(context, scopes, "condition", cond)
                    .context(EvalWhileConditionFailed)?;

                if !b {
                    break;
                }

                let escape = eval_stmts_in_new_scope(context, scopes, stmts)
                    .context(EvalWhileStatementsFailed)?;

                match escape {
                    Escape::None => {},
                    Escape::Break{..} => break,
                    Escape::Continue{..} => continue,
                    Escape::Return{..} => return Ok(escape),
                }
            }
        },
""", """        Stmt::While{cond, stmts} => {
            return eval_while(context, scopes, cond, stmts);
        },
"""),
          (E, "fn validate_args(args: &[Expr]) -> Result<()> {", """fn eval_while(
    context: &EvaluationContext,
    scopes: &mut ScopeStack,
    cond: &Expr,
    stmts: &Block,
)
    -> Result<Escape>
{
    loop {
        let b = eval_expr_to_bool(context, scopes, "condition", cond)
            .context(EvalWhileConditionFailed)?;

        if !b {
            break;
        }

        let escape = eval_stmts_in_new_scope(context, scopes, stmts)
            .context(EvalWhileStatementsFailed)?;

        match escape {
            Escape::None => {},
            Escape::Break{..} => break,
            Escape::Continue{..} => continue,
            Escape::Return{..} => return Ok(escape),
        }
    }

    Ok(Escape::None)
}

fn validate_args(args: &[Expr]) -> Result<()> {""")],
         note="the while arm extracted into its own function")
refactor("gen-reorder-operator-arms",
         [(E, """        BinaryOp::And |
        BinaryOp::Or => {
            match (lhs, rhs) {
                (Value::Bool(a), Value::Bool(b)) => {
                    let v =
                        match op {
                            BinaryOp::And => *a && *b,
                            BinaryOp::Or => *a || *b,

                            _ => panic!("unexpected operation"),
                        };

                    Ok(Value::Bool(v))
                },

                _ => {
                    Err(new_invalid_op_types())
                },
            }
        },
""", """        BinaryOp::Or |
        BinaryOp::And => {
            if let (Value::Bool(a), Value::Bool(b)) = (lhs, rhs) {
                let v =
                    match op {
                        BinaryOp::Or => *a || *b,
                        BinaryOp::And => *a && *b,

                        _ => panic!("unexpected operation"),
                    };

                Ok(Value::Bool(v))
            } else {
                Err(new_invalid_op_types())
            }
        },
""")],
         note="arms reordered and a match rewritten as if-let")
refactor("gen-unrelated-builtin-and-error",
         [("src/eval/error.rs",
           '    #[snafu(display("{}", msg))]\n    BuiltinFuncErr{msg: String},',
           '    #[snafu(display("{}", msg))]\n    BuiltinFuncErr{msg: String},\n    #[snafu(display("`{}` expects a list", fn_name))]\n    BuiltinExpectsList{fn_name: String},'),
          ("src/builtins/fns.rs", "// `assert_args` asserts that", """#[allow(clippy::needless_pass_by_value, dead_code)]
pub fn list_len(this: Option<SourcedValue>, args: Vec<SourcedValue>)
    -> Result<SourcedValue>
{
    assert_args("list_len", 1, &args)
        .context(AssertArgsFailed)?;

    assert_no_this(this.as_ref())
        .context(AssertNoThisFailed)?;

    if let Value::List(items) = &args[0].v {
        let n = lock_deref!(items).len();
        match i64::try_from(n) {
            Ok(n) => Ok(value::new_int(n)),
            Err(_) => Err(Error::BuiltinFuncErr{msg: "list too long".to_string()}),
        }
    } else {
        Err(Error::BuiltinExpectsList{fn_name: "list_len".to_string()})
    }
}

// `assert_args` asserts that""")],
         note="a new (unregistered) builtin and a new leaf error with a message")
refactor("gen-operator-fn-param-order",
         [(E, "fn apply_binary_operation(\n    op: &BinaryOp,\n    op_loc: &Location,\n    lhs: &Value,\n    rhs: &Value,\n)",
              "fn apply_binary_operation(\n    lhs: &Value,\n    op: &BinaryOp,\n    rhs: &Value,\n    op_loc: &Location,\n)"),
          (E, "            let v = apply_binary_operation(op, op_loc, &lhs_val.v, &rhs_val.v)",
              "            let v = apply_binary_operation(&lhs_val.v, op, &rhs_val.v, op_loc)"),
          (B, "            eval::apply_binary_operation(\n                &op,\n                &op_loc,\n                &lhs.v,\n                &rhs.v,\n            )",
              "            eval::apply_binary_operation(\n                &lhs.v,\n                &op,\n                &rhs.v,\n                &op_loc,\n            )"),
          (B, "                    eval::apply_binary_operation(\n                        &op,\n                        &op_loc,\n                        &lhs_val.v,\n                        &rhs_val.v,\n                    )",
              "                    eval::apply_binary_operation(\n                        &lhs_val.v,\n                        &op,\n                        &rhs_val.v,\n                        &op_loc,\n                    )")],
         note="parameter order of the operator function changed consistently")
refactor("gen-eq-lists-with-zip",
         [(E, "            for (i, x) in xs.iter().enumerate() {\n                let y = &ys[i];\n",
              "            for (i, (x, y)) in xs.iter().zip(ys.iter()).enumerate() {\n")],
         note="element-wise list comparison written with zip")
refactor("gen-explicit-lock-instead-of-macro",
         [(E, "            let items = &lock_deref!(items);\n\n            let mut pairs = Vec::with_capacity(items.len());",
              "            let guard = items.try_lock().unwrap();\n            let items = &*guard;\n\n            let mut pairs = Vec::with_capacity(items.len());")],
         note="lock_deref! expanded by hand in value_to_pairs")

# ---- C16 ---------------------------------------------------------------------
mutant("c16-plus-accepts-int-and-string",
       [(E, "                (Value::Str(a), Value::Str(b)) => {\n                    Ok(Value::Str([a.clone(), b.clone()].concat()))\n                },",
            "                (Value::Str(a), Value::Str(b)) => {\n                    Ok(Value::Str([a.clone(), b.clone()].concat()))\n                },\n                (Value::Str(a), Value::Int(n)) => {\n                    Ok(Value::Str([a.clone(), n.to_string().into_bytes()].concat()))\n                },")],
       [("C16", "R16.1")])
mutant("c16-and-on-ints",
       [(E, "                (Value::Bool(a), Value::Bool(b)) => {\n                    let v =\n                        match op {\n                            BinaryOp::And => *a && *b,",
            "                (Value::Int(a), Value::Int(b)) => {\n                    Ok(Value::Bool(*a != 0 && *b != 0))\n                },\n                (Value::Bool(a), Value::Bool(b)) => {\n                    let v =\n                        match op {\n                            BinaryOp::And => *a && *b,")],
       [("C16", "R16.1")])
mutant("c16-index-accepts-null",
       [(E, "                _ => {\n                    new_loc_err(Error::ValueNotIndexable)\n                },",
            "                Value::Null => Ok(value::new_null()),\n\n                _ => {\n                    new_loc_err(Error::ValueNotIndexable)\n                },")],
       [("C16", "R16.2")])
mutant("c16-type-name-str",
       [("src/builtins/type_functions.rs", "            Value::Str(_) => \"string\",", "            Value::Str(_) => \"str\",")],
       [("C16", "R16.3")])
mutant("c16-error-operands-swapped",
       [(E, "            source: Box::new(Error::InvalidOpTypes{\n                op: op.clone(),\n                lhs: lhs.clone(),\n                rhs: rhs.clone(),\n            }),",
            "            source: Box::new(Error::InvalidOpTypes{\n                op: op.clone(),\n                lhs: rhs.clone(),\n                rhs: lhs.clone(),\n            }),")],
       [("C16", "R16.4")])
mutant("c17-new-context-not-peeled",
       [("src/eval/error.rs", "    EvalExprFailed{\n        #[snafu(source(from(Error, Box::new)))]\n        source: Box<Error>,\n    },",
         "    EvalExprFailed{\n        #[snafu(source(from(Error, Box::new)))]\n        source: Box<Error>,\n    },\n    EvalSpreadSourceFailed{\n        #[snafu(source(from(Error, Box::new)))]\n        source: Box<Error>,\n    },"),
        (E, "        let v = eval_expr(context, scopes, &item.expr)\n            .context(EvalListItemFailed)?;",
            "        let v =\n            if item.is_spread {\n                eval_expr(context, scopes, &item.expr)\n                    .context(EvalSpreadSourceFailed)?\n            } else {\n                eval_expr(context, scopes, &item.expr)\n                    .context(EvalListItemFailed)?\n            };")],
       [("C17", "L1")], note="the realistic regression: a new context variant not listed in main.rs")
mutant("c17-bare-leaf-error",
       [(E, "            if *collect {\n                return new_loc_err(Error::ListCollectOutsideDestructure);",
            "            if *collect {\n                return Err(Error::ListCollectOutsideDestructure);"),
        ],
       [("C17", "L3")])


# ---- mutants of refactored trees (refactors/<name>/patch.diff applied first) --
RB = "refactors/binop/patch.diff"
mutant("rb-div-wrapping", [(E, "            BinaryOp::Div => a.checked_div(b),", "            BinaryOp::Div => Some(a.wrapping_div(b)),")],
       [("C06", "R06.1")], base=RB, note="binop refactor + wrapping division")
mutant("rb-mod-zero-some", [(E, "                if b == 0 {\n                    None\n                } else {", "                if b == 0 {\n                    Some(0)\n                } else {")],
       [("C06", "R06.1")], base=RB, note="binop refactor + `% 0` answers 0")
mutant("rb-sub-swapped", [(E, "            BinaryOp::Sub => a.checked_sub(b),", "            BinaryOp::Sub => b.checked_sub(a),")],
       [("C06", "R06.1")], base=RB)
mutant("rb-overflow-default", [(E, "        None => Err(new_int_overflow(op, op_loc, a, b)),", "        None => Ok(Value::Int(i64::MAX)),")],
       [("C06", "R06.1")], base=RB, note="binop refactor + saturate on overflow")

RS = "refactors/stmt/patch.diff"
mutant("rs-while-cond-hoisted",
       [(E, "    loop {\n        let b = eval_expr_to_bool(context, scopes, \"condition\", cond)\n            .context(EvalWhileConditionFailed)?;\n\n        if !b {",
            "    let b = eval_expr_to_bool(context, scopes, \"condition\", cond)\n        .context(EvalWhileConditionFailed)?;\n    loop {\n        if !b {")],
       [("C07", "R07.6")], base=RS, note="stmt refactor + while condition evaluated once")
mutant("rs-while-return-swallowed",
       [(E, "            .context(EvalWhileStatementsFailed)?;\n\n        match escape {\n            Escape::None => {},\n            Escape::Break{..} => break,\n            Escape::Continue{..} => continue,\n            Escape::Return{..} => return Ok(escape),",
            "            .context(EvalWhileStatementsFailed)?;\n\n        match escape {\n            Escape::None => {},\n            Escape::Break{..} => break,\n            Escape::Continue{..} => continue,\n            Escape::Return{..} => break,")],
       [("C07", "R07.2")], base=RS, note="stmt refactor + return inside while treated as break")

RC = "refactors/call/patch.diff"
mutant("rc-break-falls-to-null",
       [(E, "        Escape::Break{loc: (line, col)} =>\n            Err(Error::AtLoc{\n                source: Box::new(Error::BreakOutsideLoop),\n                line,\n                col,\n            }),",
            "        Escape::Break{..} =>\n            Ok(value::new_null()),")],
       [("C07", "R07.4")], base=RC, note="call refactor + break escaping a function body yields null")
mutant("rc-this-always-bound",
       [(E, "    if let Some(this) = this_source {\n        // TODO Consider how to avoid creating a new AST variable node here.\n        bindings.push((\n            (RawExpr::Var{name: \"this\".to_string()}, (0, 0)),\n            value::new_val_ref_with_no_source(this),\n        ));\n    }",
            "    bindings.push((\n        (RawExpr::Var{name: \"this\".to_string()}, (0, 0)),\n        value::new_val_ref_with_no_source(this_source.unwrap_or(Value::Null)),\n    ));")],
       [("C14", "R14.3")], base=RC, note="call refactor + `this` bound unconditionally")

REI = "refactors/exprindex/patch.diff"
mutant("rei-empty-range-shortcut",
       [(E, "    let end = maybe_end.unwrap_or(items.len());\n\n    items.get(start .. end).ok_or((start, end))",
            "    let end = maybe_end.unwrap_or(items.len());\n\n    if start == end {\n        return Ok(&items[.. 0]);\n    }\n\n    items.get(start .. end).ok_or((start, end))")],
       [("C11", "R11.2")], base=REI, note="exprindex refactor + `x[a:a]` answered before the bounds lookup")
mutant("rei-end-defaults-to-start",
       [(E, "    let end = maybe_end.unwrap_or(items.len());\n\n    items.get(start .. end)", "    let end = maybe_end.unwrap_or(start);\n\n    items.get(start .. end)")],
       [("C11", "R11.5")], base=REI, note="exprindex refactor + omitted end defaults to start")

RBD = "refactors/bind/patch.diff"
mutant("rbd-index-bound-off-by-one",
       [(B, "    if n >= lock_deref!(items).len() {\n        return at_loc(lhs_loc, Error::OutOfListBounds{index: n});",
            "    if n > lock_deref!(items).len() {\n        return at_loc(lhs_loc, Error::OutOfListBounds{index: n});")],
       [("C11", "R11.3")], base=RBD, note="bind refactor + index == len accepted")
mutant("rbd-op-assign-under-list-lock",
       [(B, "    let mut lhs_val = lock_deref!(items)[n].clone();\n\n    binary_operation_assign(&mut lhs_val, rhs, op)\n        .context(BinOpAssignListIndexFailed)?;\n\n    lock_deref!(items)[n] = lhs_val;",
            "    binary_operation_assign(&mut lock_deref!(items)[n], rhs, op)\n        .context(BinOpAssignListIndexFailed)?;")],
       [("C02", "R02.1")], base=RBD, note="bind refactor + `xs[0] += xs` under the list lock")

RL = "refactors/lexnext/patch.diff"
mutant("rl-drop-mod", [(L, "        Token::Mod |\n        Token::ModEquals |", "        Token::ModEquals |")],
       [("C09", "R09.1")], base=RL, note="lexnext refactor + `%` no longer continues a statement")
mutant("rl-start-of-input-significant", [(L, "        None => false,\n        Some(t) => !continues_statement(t),", "        None => true,\n        Some(t) => !continues_statement(t),")],
       [("C09", "R09.1")], base=RL, note="lexnext refactor + leading newline emits a terminator")
mutant("rl-polarity", [(L, "        Some(t) => !continues_statement(t),", "        Some(t) => continues_statement(t),")],
       [("C09", "R09.1")], base=RL, note="lexnext refactor + inverted decision")

RM = "refactors/mainerr/patch.diff"
mutant("rm-wrapper-dropped-from-peel-list",
       [(MAIN, "        EvalError::EvalReturnExprFailed{source} |\n", "")],
       [("C17", "L1")], base=RM, note="mainerr refactor + one wrapper missing from the transparent list")

RT = "refactors/rendertype/patch.diff"
V = "src/eval/value.rs"
mutant("rt-str-named-str", [(V, '            Value::Str(_) => "string",', '            Value::Str(_) => "str",')],
       [("C16", "R16.3")], base=RT, note="rendertype refactor + string kind renamed")
mutant("rt-mismatch-swapped", [(E, "                lhs.type_name().to_string(),\n                rhs.type_name().to_string(),", "                rhs.type_name().to_string(),\n                lhs.type_name().to_string(),")],
       [("C10", "R10.5")], base=RT, note="rendertype refactor + swapped type names in the == mismatch")

SC = "src/eval/scope.rs"
mutant("c04-lookup-outermost-first",
       [(SC, "    pub fn get(&self, name: &String) -> Option<SourcedValue> {\n        for scope in self.0.iter().rev() {",
             "    pub fn get(&self, name: &String) -> Option<SourcedValue> {\n        for scope in self.0.iter() {")],
       [("C04", "R04.5"), ("C20", "R20.7")], note="name lookup walks the chain outermost-first")
RSC = "refactors/scope/patch.diff"
mutant("rsc-defining-scope-outermost-first",
       [(SC, "        for scope in self.scopes.iter().rev() {", "        for scope in self.scopes.iter() {")],
       [("C04", "R04.5")], base=RSC, note="scope refactor + search outermost-first")
mutant("rsc-push-skipped-when-empty",
       [(SC, "        let mut scopes = self.scopes.clone();\n        scopes.push(Arc::new(Mutex::new(scope)));",
             "        let mut scopes = self.scopes.clone();\n        if !scope.is_empty() || scopes.is_empty() {\n            scopes.push(Arc::new(Mutex::new(scope)));\n        }")],
       [("C04", "R04.4"), ("C20", "R20.6")], base=RSC, note="scope refactor + empty scopes not pushed")

mutant("rb-logical-accepts-ints",
       [(E, "        (Value::Bool(a), Value::Bool(b)) => {\n            let v =\n                match op {\n                    BinaryOp::And => *a && *b,",
            "        (Value::Int(a), Value::Int(b)) => {\n            Ok(Value::Bool(*a != 0 && *b != 0))\n        },\n        (Value::Bool(a), Value::Bool(b)) => {\n            let v =\n                match op {\n                    BinaryOp::And => *a && *b,")],
       [("C16", "R16.1")], base=RB, note="binop refactor + `&&`/`||` accept two ints")
mutant("rb-sum-int-str",
       [(E, "        (Value::Str(a), Value::Str(b)) => {\n            Ok(Value::Str([a.clone(), b.clone()].concat()))\n        },",
            "        (Value::Str(a), Value::Str(b)) => {\n            Ok(Value::Str([a.clone(), b.clone()].concat()))\n        },\n        (Value::Str(a), Value::Int(b)) => {\n            Ok(Value::Str([a.clone(), b.to_string().into_bytes()].concat()))\n        },")],
       [("C16", "R16.1")], base=RB, note="binop refactor + string + int coerces")
mutant("rb-type-error-swapped",
       [(E, "        source: Box::new(Error::InvalidOpTypes{\n            op: op.clone(),\n            lhs: lhs.clone(),\n            rhs: rhs.clone(),",
            "        source: Box::new(Error::InvalidOpTypes{\n            op: op.clone(),\n            lhs: rhs.clone(),\n            rhs: lhs.clone(),")],
       [("C16", "R16.4")], base=RB, note="binop refactor + swapped operands in the type error")
mutant("rb-list-concat-aliases",
       [(E, "            let a = lock_deref!(a).clone();\n            let b = lock_deref!(b).clone();\n\n            Ok(Value::List(Arc::new(Mutex::new([a, b].concat()))))",
            "            if lock_deref!(b).is_empty() {\n                return Ok(lhs.clone());\n            }\n            let a = lock_deref!(a).clone();\n            let b = lock_deref!(b).clone();\n\n            Ok(Value::List(Arc::new(Mutex::new([a, b].concat()))))")],
       [("C05", "R05.4")], base=RB, note="binop refactor + `xs + []` returns xs itself")

RA = "refactors/astctor/patch.diff"
mutant("ra-ctor-swaps-operands",
       [("src/ast.rs", "            lhs: Box::new(lhs),\n            rhs: Box::new(rhs),", "            lhs: Box::new(rhs),\n            rhs: Box::new(lhs),")],
       [("C08", "R08.2")], base=RA, note="astctor refactor + constructor helper swaps the operands")

RLI = "refactors/literals/patch.diff"
mutant("rli-items-reversed",
       [(E, "    for item in items {\n        eval_list_item_into(context, scopes, item, &mut vals)?;\n    }\n\n    Ok(vals)",
            "    for item in items.iter().rev() {\n        eval_list_item_into(context, scopes, item, &mut vals)?;\n    }\n    vals.reverse();\n\n    Ok(vals)")],
       [("C14", "R14.1")], base=RLI, note="literals refactor + items evaluated right to left")

RCO = "refactors/coerce/patch.diff"
mutant("rco-bool-context-accepts-int",
       [(E, "            Value::Bool(b) => Ok(b),\n            value => Err(value),", "            Value::Bool(b) => Ok(b),\n            Value::Int(n) => Ok(n != 0),\n            value => Err(value),")],
       [("C16", "R16.2")], base=RCO, note="coerce refactor + conditions accept ints (selector closure widened)")

RDS = "refactors/destructure/patch.diff"
mutant("rds-collect-min-off-by-one",
       [(B, "    let collect_index = if *collect { Some(lhs_len-1) } else { None };", "    let collect_index = if *collect { Some(lhs_len) } else { None };")],
       [("C13", "R13.1")], base=RDS, note="destructure refactor + collector requires n items instead of n-1")
mutant("rds-arity-selected-wrongly",
       [(B, "    let collect_index = if *collect { Some(lhs_len-1) } else { None };", "    let collect_index = if !*collect { Some(lhs_len-1) } else { None };")],
       [("C13", "R13.1")], base=RDS, note="destructure refactor + collect flag inverted")

RLE = "refactors/locerr/patch.diff"
mutant("rle-break-at-call-is-null",
       [(E, "                            Escape::Break{loc} =>\n                                new_loc_err(loc, Error::BreakOutsideLoop),",
            "                            Escape::Break{..} =>\n                                Ok(value::new_null()),")],
       [("C07", "R07.4")], base=RLE, note="locerr refactor + break escaping a call yields null")
mutant("rle-helper-drops-location",
       [("src/eval/error.rs", "pub fn new_loc_err<T>(loc: Location, source: Error) -> Result<T> {", "pub fn new_loc_err<T>(loc: Location, source: Error) -> Result<T> {\n    if loc.0 == 0 {\n        return Err(source);\n    }")],
       [("C17", "L3")], base=RLE, note="locerr refactor + helper returns a bare error for line 0")

RLM = "refactors/lockmacro/patch.diff"
mutant("rlm-op-assign-under-list-lock",
       [(B, "                    let mut lhs_val = lock_list(&items)[n as usize].clone();\n\n                    binary_operation_assign(&mut lhs_val, rhs, op)\n                        .context(BinOpAssignListIndexFailed)?;",
            "                    let mut guard = lock_list(&items);\n                    let mut lhs_val = guard[n as usize].clone();\n\n                    binary_operation_assign(&mut lhs_val, rhs, op)\n                        .context(BinOpAssignListIndexFailed)?;\n                    guard[n as usize] = lhs_val.clone();")],
       [("C02", "R02.1")], base=RLM, note="lockmacro refactor + guard from a locking helper held across the operator")

RMS = "refactors/modsplit/patch.diff"
mutant("rms-div-wrapping",
       [("src/eval/ops.rs", "                            if let Some(v) = a.checked_div(*b) {", "                            if let Some(v) = Some(a.wrapping_div(*b)) {")],
       [("C06", "R06.1")], base=RMS, note="eval split into submodules + wrapping division")
mutant("rms-lookup-null-on-miss",
       [("src/eval/expr.rs", "                    None => return new_loc_err(\n                        Error::Undefined{name: name.clone()},\n                    ),", "                    None => return Ok(value::new_null()),")],
       [("C20", "R20.4")], base=RMS, note="eval split into submodules + undefined variable reads as null")

RLS = "refactors/lexsplit/patch.diff"
mutant("rls-le-as-lt",
       [("src/lexer/symbols.rs", "        ('<', '=') => Some(Token::LessThanEquals),", "        ('<', '=') => Some(Token::LessThan),")],
       [("C08", "R08.3")], base=RLS, note="lexer split into submodules (Token moved to lexer::token) + `<=` lexed as `<`")
mutant("rls-drop-continuation",
       [(L, "                    Token::Mod |\n", "")],
       [("C09", "R09.1")], base=RLS, note="lexer split + `%` no longer continues a statement")

RID = "refactors/idioms/patch.diff"
mutant("rid-sequence-forwards-only-return",
       [(E, "        if !matches!(v, Escape::None) {", "        if matches!(v, Escape::Return{..}) {")],
       [("C07", "R07.3")], base=RID, note="idioms refactor + a statement sequence forwards only `return`")
mutant("rid-refne-polarity",
       [(E, "                        if matches!(op, BinaryOp::RefEq) { v } else { !v },", "                        if matches!(op, BinaryOp::RefEq) { !v } else { v },")],
       [("C10", "R10.3")], base=RID, note="idioms refactor + inverted polarity inside the map closure")
mutant("rid-add-wrapping",
       [(E, "                    a.checked_add(*b)\n                        .map(Value::Int)", "                    Some(a.wrapping_add(*b))\n                        .map(Value::Int)")],
       [("C06", "R06.1")], base=RID, note="idioms refactor + wrapping addition in the combinator chain")
mutant("rid-overflow-saturates",
       [(E, "                    a.checked_add(*b)\n                        .map(Value::Int)\n                        .ok_or_else(|| new_int_overflow(a, b))", "                    Ok(a.checked_add(*b)\n                        .map(Value::Int)\n                        .unwrap_or(Value::Int(i64::MAX)))")],
       [("C06", "R06.1")], base=RID, note="idioms refactor + overflow saturates via unwrap_or")

RPC = "refactors/perfclone/patch.diff"
mutant("rpc-concat-holds-both-locks",
       [(E, "                    let mut items = lock_deref!(a).clone();\n                    items.extend_from_slice(&lock_deref!(b));",
            "                    let ga = a.try_lock().unwrap();\n                    let mut items = ga.clone();\n                    items.extend_from_slice(&lock_deref!(b));\n                    drop(ga);")],
       [("C02", "R02.1")], base=RPC, note="perfclone refactor + `xs + xs` locks the same list twice")
mutant("rpc-concat-empty-rhs-aliases",
       [(E, "                    let mut items = lock_deref!(a).clone();\n                    items.extend_from_slice(&lock_deref!(b));",
            "                    if lock_deref!(b).is_empty() {\n                        return Ok(lhs.clone());\n                    }\n                    let mut items = lock_deref!(a).clone();\n                    items.extend_from_slice(&lock_deref!(b));")],
       [("C05", "R05.4")], base=RPC, note="perfclone refactor + `xs + []` returns xs itself")

RCF = "refactors/constfold/patch.diff"
mutant("rcf-hex-in-helper",
       [(L, "    digits.parse::<i64>().map_err(|e| e.kind().clone())", "    if let Some(h) = digits.strip_prefix(\"0x\") {\n        return i64::from_str_radix(h, 16).map_err(|e| e.kind().clone());\n    }\n    digits.parse::<i64>().map_err(|e| e.kind().clone())")],
       [("C03", "R03.5")], base=RCF, note="constfold refactor + hex parsing in the literal helper makes the panic arm reachable")
mutant("rcf-negate-any-int",
       [("src/ast.rs", "    pub fn negated_int_literal(magnitude: i64) -> Self {", "    pub fn negated_int_literal(magnitude: i64) -> Self {\n        let magnitude = magnitude - 1 + 1;")],
       [("C02", "R02.2")], base=RCF, note="constfold refactor + raw i64 arithmetic in the literal constructor")

REV = "refactors/evaluator/patch.diff"
mutant("rev-body-on-callers-chain",
       [(E, "                Evaluator::new(context, &mut closure)\n                    .eval_stmts(bindings, &stmts)", "                Evaluator::new(context, scopes)\n                    .eval_stmts(bindings, &stmts)")],
       [("C04", "R04.3")], base=REV, note="Evaluator-struct refactor + function body runs on the caller's chain (dynamic scoping)")
mutant("rev-block-without-push",
       [(E, "        let mut new_scopes = self.scopes.new_from_push(HashMap::new());\n        let mut inner = Evaluator::new(self.context, &mut new_scopes);", "        let mut new_scopes = self.scopes.clone();\n        let mut inner = Evaluator::new(self.context, &mut new_scopes);")],
       [("C04", "R04.4")], base=REV, note="Evaluator-struct refactor + blocks run in the enclosing scope")

RMR = "refactors/mainrun/patch.diff"
mutant("rmr-script-failure-exits-1",
       [(MAIN, "const EXIT_SCRIPT_FAILED: i32 = 103;", "const EXIT_SCRIPT_FAILED: i32 = 1;")],
       [("C17", "L5")], base=RMR, note="mainrun refactor + script failures exit with status 1")
mutant("rmr-eval-before-parse-check",
       [(MAIN, "    let ast = parse_prog(&src)?;\n\n    eval_script(cur_script_dir, cur_rel_script_path, &ast)",
               "    let ast = parse_prog(&src);\n    let fallback = Prog::Body{stmts: vec![]};\n    eval_script(cur_script_dir.clone(), cur_rel_script_path, ast.as_ref().unwrap_or(&fallback))?;\n    ast.map(|_| ())")],
       [("C03", "R03.1")], base=RMR, note="mainrun refactor + evaluation no longer behind the successful parse")

mutant("c15-len-counts-chars",
       [("src/builtins/type_functions.rs", "    let n: i64 = s.len().try_into()", "    let n: i64 = s.chars().count().try_into()")],
       [("C15", "R15.2")], note="`->len()` reports a character count")

REM = "refactors/enummethods/patch.diff"
mutant("rem-as-bool-accepts-int",
       [("src/eval/value.rs", "            Value::Bool(b) => Some(*b),\n", "            Value::Bool(b) => Some(*b),\n            Value::Int(n) => Some(*n != 0),\n")],
       [("C16", "R16.1")], base=REM, note="enum-accessor refactor + `as_bool` silently converts ints (conditions and && || accept ints)")
mutant("rem-sub-swapped",
       [(E, "                            if let Some(v) = a.checked_sub(b) {", "                            if let Some(v) = b.checked_sub(a) {")],
       [("C06", "R06.1")], base=REM, note="enum-accessor refactor + swapped operands")

REC = "refactors/errctors/patch.diff"
mutant("rec-overflow-ctor-swaps-operands",
       [("src/eval/error.rs", "        Error::IntOverflow{op: op.clone(), lhs, rhs}", "        Error::IntOverflow{op: op.clone(), lhs: rhs, rhs: lhs}")],
       [("C06", "R06.1")], base=REC, note="error-constructor refactor + the helper swaps the operands of IntOverflow")
mutant("rec-undefined-reads-null",
       [(E, "                    None => return new_loc_err(Error::undefined(name)),", "                    None => return Ok(value::new_null()),")],
       [("C20", "R20.4")], base=REC, note="error-constructor refactor + undefined variable reads as null")

mutant("c13-grammar-collect-param-in-the-middle",
       [(G, "        (values, collect)\n    }\n}\n\npub Block: Block = {",
            "        (values, collect)\n    },\n    <mut values:(<Expr> \",\")*> \"..\" <v:Expr> \",\" <w:Expr> => {\n        values.push(v);\n        values.push(w);\n        (values, true)\n    },\n}\n\npub Block: Block = {")],
       [("C13", "R13.4")], note="grammar lets a collecting parameter be followed by another parameter")

RSL = "refactors/scopelist/patch.diff"
mutant("rsl-empty-scope-not-pushed",
       [(SC, "        ScopeStack(Some(Arc::new(ScopeNode{", "        if scope.is_empty() && self.0.is_some() {\n            return self.clone();\n        }\n        ScopeStack(Some(Arc::new(ScopeNode{")],
       [("C04", "R04.4")], base=RSL, note="linked-list scope chain + an empty block scope is not pushed")

ROT = "refactors/optable/patch.diff"
mutant("rot-table-rem-is-checked-rem",
       [(E, "        BinaryOp::Mod => Some(checked_exact_rem),", "        BinaryOp::Mod => Some(i64::checked_rem),")],
       [("C06", "R06.1")], base=ROT, note="table-driven operators + `%` mapped to checked_rem (MIN % -1 reported as overflow)")
mutant("rot-table-div-wrapping",
       [(E, "        BinaryOp::Div => Some(i64::checked_div),", "        BinaryOp::Div => Some(|a: i64, b: i64| Some(a.wrapping_div(b))),")],
       [("C06", "R06.2")], base=ROT, note="table-driven operators + wrapping division closure in the table")
mutant("rot-apply-swapped",
       [(E, "        return f(*a, *b).map(Value::Int);", "        return f(*b, *a).map(Value::Int);")],
       [("C06", "R06.1")], base=ROT, note="table-driven operators + function value applied to (rhs, lhs)")
mutant("rot-cmp-table-ge-for-gt",
       [(E, "        BinaryOp::Gt => Some(i64::gt),", "        BinaryOp::Gt => Some(i64::ge),")],
       [("C06", "R06.4")], base=ROT, note="table-driven comparisons + `>` mapped to `>=`")

mutant("c06-mod-checked-rem",
       [(E, "                            if *b == 0 {\n                                Err(new_int_overflow(a, b))\n                            } else {\n                                // `wrapping_rem` only differs from `%` for\n                                // `i64::MIN % -1`, where it returns the\n                                // exact result (`0`) instead of panicking.\n                                Ok(Value::Int(a.wrapping_rem(*b)))\n                            }",
            "                            if let Some(v) = a.checked_rem(*b) {\n                                Ok(Value::Int(v))\n                            } else {\n                                Err(new_int_overflow(a, b))\n                            }")],
       [("C06", "R06.1")], note="`%` by checked_rem: i64::MIN % -1 (exact result 0) reported as overflow")

# ---- round 5 (free-choice refactors) ------------------------------------------
RFS = "refactors/free-scope/patch.diff"
mutant("rfs-lookup-outermost-first",
       [(SC, "        for scope in self.0.iter().rev() {\n            if let Some(binding) = lock(scope).get_mut(name) {",
             "        for scope in self.0.iter() {\n            if let Some(binding) = lock(scope).get_mut(name) {")],
       [("C04", "R04.5")], also=[("C20", "R20.7")], base=RFS,
       note="scope refactor (shared with_binding walk) + lookups search the outermost scope first")
mutant("rfs-lookup-var-null-on-miss",
       [(E, "    scopes.get(name).ok_or_else(|| Error::AtLoc{\n        source: Box::new(Error::Undefined{name: name.to_string()}),\n        line,\n        col,\n    })",
            "    let _ = (line, col);\n    Ok(scopes.get(name).unwrap_or_else(value::new_null))")],
       [("C20", "R20.4")], base=RFS, note="scope refactor + the shared lookup helper answers null for an undefined name")
mutant("rfs-with-new-scope-copies-bindings",
       [(SC, "        scopes.push(Arc::new(Mutex::new(Scope::new())));",
             "        let top = self.0.last().map(|s| lock(s).clone()).unwrap_or_default();\n        scopes.push(Arc::new(Mutex::new(top)));")],
       [("C04", "R04.4")], also=[("C04", "R04.2"), ("C20", "R20.6")], base=RFS,
       note="scope refactor + a new scope starts as a copy of the enclosing one")

RFB = "refactors/free-bind/patch.diff"
mutant("rfb-assign-declares-on-miss",
       [(B, "            if !scopes.assign(name, new_val) {\n                return new_undefined_err();\n            }",
            "            if !scopes.assign(name, new_val.clone()) {\n                let _ = scopes.declare(name, *name_loc, new_val);\n            }")],
       [("C20", "R20.4")], base=RFB, note="binder refactor + assignment to an undefined name declares it")

RFA = "refactors/free-eval-a/patch.diff"
mutant("rfa-loop-step-break-continues",
       [(E, "        Escape::Break{..} => LoopStep::Exit(Escape::None),", "        Escape::Break{..} => LoopStep::Next,")],
       [("C07", "R07.2")], base=RFA, note="loop_step classifier + break behaves like continue")
mutant("rfa-loop-step-return-swallowed",
       [(E, "        Escape::Return{..} => LoopStep::Exit(escape),", "        Escape::Return{..} => LoopStep::Exit(Escape::None),")],
       [("C07", "R07.2")], base=RFA, note="loop_step classifier + a return inside a loop only ends the loop")
mutant("rfa-loop-step-continue-exits",
       [(E, "        Escape::None | Escape::Continue{..} => LoopStep::Next,", "        Escape::None => LoopStep::Next,\n        Escape::Continue{..} => LoopStep::Exit(Escape::None),")],
       [("C07", "R07.2")], base=RFA, note="loop_step classifier + continue ends the loop")

RFC = "refactors/free-eval-c/patch.diff"
mutant("rfc-sub-operands-swapped-in-error",
       [(E, "            checked_int(a.checked_sub(*b), a, b),", "            checked_int(a.checked_sub(*b), b, a),")],
       [("C06", "R06.1")], base=RFC, note="flat operator match + the overflow error of `-` reports (rhs, lhs)")
mutant("rfc-mul-wrapping",
       [(E, "            checked_int(a.checked_mul(*b), a, b),", "            checked_int(Some(a.wrapping_mul(*b)), a, b),")],
       [("C06", "R06.1")], also=[("C06", "R06.2")], base=RFC, note="flat operator match + `*` wraps")
mutant("rfc-overflow-defaults-to-zero",
       [(E, "            None =>\n                Err(new_loc_err(Error::IntOverflow{\n                    op: op.clone(),\n                    lhs: *a,\n                    rhs: *b,\n                })),",
            "            None if matches!(op, BinaryOp::Div) =>\n                Ok(Value::Int(0)),\n            None =>\n                Err(new_loc_err(Error::IntOverflow{\n                    op: op.clone(),\n                    lhs: *a,\n                    rhs: *b,\n                })),")],
       [("C06", "R06.1")], base=RFC, note="flat operator match + division by zero gives 0")
mutant("rfc-exact-rem-zero-guard-dropped",
       [(E, "    if b == 0 {\n        return None;\n    }\n\n    // `wrapping_rem`", "    if b == 1 {\n        return None;\n    }\n\n    // `wrapping_rem`")],
       [("C06", "R06.1")], also=[("C06", "R06.2"), ("C02", "R02.2")], base=RFC, note="flat operator match + exact_rem guards the wrong divisor")
mutant("rfc-ne-not-negated",
       [(E, "                .map(|equal| Value::Bool(!equal))", "                .map(|equal| Value::Bool(equal))")],
       [("C10", "R10.3")], base=RFC, note="flat operator match + `!=` answers like `==`")
mutant("rfc-ne-compares-swapped-operands",
       [(E, "        (BinaryOp::Ne, _, _) =>\n            deep_eq(lhs, rhs)", "        (BinaryOp::Ne, _, _) =>\n            deep_eq(rhs, lhs)")],
       [("C10", "R10.3")], also=[("C16", "R16.4")], base=RFC, note="flat operator match + `!=` traverses (rhs, lhs): mismatch diagnostics name the types in the wrong order")
mutant("rfc-mismatch-types-swapped",
       [(E, "lhs_type: error::render_type(lhs),", "lhs_type: error::render_type(rhs),")],
       [("C16", "R16.4")], base=RFC, note="flat operator match + the mismatch value names the rhs type as lhs_type")

mutant("c16-eq-mismatch-tuple-swapped",
       [(E, "                String::new(),\n                error::render_type(lhs),\n                error::render_type(rhs),",
            "                String::new(),\n                error::render_type(rhs),\n                error::render_type(lhs),")],
       [("C16", "R16.4")], note="`==` type mismatch names the operand types in the wrong order")

RFV = "refactors/free-value/patch.diff"
mutant("rfv-list-ctor-reuses-cell",
       [("src/eval/value.rs", "    pub fn list(items: List) -> Self {\n        Value::List(new_shared(items))\n    }",
         "    pub fn list(items: List) -> Self {\n        thread_local! { static CELL: ListRef = new_shared(vec![]); }\n        if items.is_empty() {\n            return Value::List(CELL.with(|c| c.clone()));\n        }\n        Value::List(new_shared(items))\n    }")],
       [("C05", "R05.3")], base=RFV, note="constructor refactor + every empty list shares one cell")

# ---- round 6 (style-driven refactors) ------------------------------------------
RSP = "refactors/s-perf/patch.diff"
mutant("rsp-entry-declare-overwrites",
       [(SC, "            Entry::Occupied(entry) => {\n                let (_, prev_loc) = entry.get();\n\n                return Err(*prev_loc);\n            },",
             "            Entry::Occupied(mut entry) => {\n                entry.insert((v, loc));\n            },")],
       [("C20", "R20.2")], base=RSP, note="entry-API declare + an occupied entry is overwritten instead of refused")
RST = "refactors/s-types/patch.diff"
mutant("rst-arity-minimum-off-by-one",
       [("src/ast.rs", "            Arity::AtLeast(self.targets.len()-1)", "            Arity::AtLeast(self.targets.len())")],
       [("C13", "R13.1")], base=RST, note="Arity accessor + a collecting parameter list demands n arguments instead of n-1")
mutant("rst-arity-flag-inverted",
       [("src/ast.rs", "        if self.collect {\n            Arity::AtLeast(self.targets.len()-1)\n        } else {\n            Arity::Exactly(self.targets.len())\n        }",
                       "        if !self.collect {\n            Arity::AtLeast(self.targets.len()-1)\n        } else {\n            Arity::Exactly(self.targets.len())\n        }")],
       [("C13", "R13.1")], base=RST, note="Arity accessor + the collect flag selects the wrong count test")
RSC = "refactors/s-consts/patch.diff"
mutant("rsc-table-lte-is-lt",
       [(L, '    ("<=", Token::LessThanEquals),', '    ("<=", Token::LessThan),')],
       [("C08", "R08.3")], base=RSC, note="static spelling table + `<=` spelled as the `<` token")
RSE = "refactors/s-errors/patch.diff"
mutant("rse-index-missing-key-is-null",
       [(E, "                        .ok_or_else(|| Error::PropNotFound{name}.at(*loc))?;", "                        .unwrap_or(Value::Null);")],
       [("C12", "R12.2")], base=RSE, note="combinator error plumbing + `o[\"k\"]` answers null for a missing key while `o.k` raises")
RSF = "refactors/s-flow/patch.diff"
mutant("rsf-this-bound-unconditionally",
       [(E, "    if let Some(this) = this {\n        // TODO Consider how to avoid creating a new AST variable node here.",
            "    {\n        let this = this.unwrap_or(Value::Null);\n        // TODO Consider how to avoid creating a new AST variable node here.")],
       [("C14", "R14.3")], base=RSF, note="bindings helper + `this` is bound (to null) for plain calls too")

# ---- round 7 ---------------------------------------------------------------------
RTC = "refactors/t-clippy/patch.diff"
mutant("rtc-is-some-and-polarity-dropped",
       [(L, "            if last_token.is_some_and(|t| !suppresses_stmt_end(&t)) {", "            if last_token.is_some_and(|t| suppresses_stmt_end(&t)) {")],
       [("C09", "R09.1")], base=RTC, note="idiom sweep + the continuation test is inverted inside the is_some_and closure")
mutant("rtc-comma-no-longer-continues",
       [(L, "        Token::Comma |\n        Token::Div |", "        Token::Div |")],
       [("C09", "R09.1")], base=RTC, note="idiom sweep + `,` dropped from the continuation table behind is_some_and")
mutant("rtc-mod-zero-gives-zero",
       [(E, "                            BinaryOp::Mod if *b == 0 => None,", "                            BinaryOp::Mod if *b == 0 => Some(0),")],
       [("C06", "R06.1")], base=RTC, note="idiom sweep + `% 0` answers 0 in the merged Option form")
mutant("rtc-refne-not-negated",
       [(E, "                .map(|v| Value::Bool(if negates(op) { !v } else { v }))", "                .map(|v| Value::Bool(v))")],
       [("C10", "R10.3")], base=RTC, note="idiom sweep + `!==` answers like `===`")
RTL = "refactors/t-lexerloop/patch.diff"
mutant("rtl-start-of-input-emits",
       [(L, "    let Some(t) = last_token else {\n        return false;\n    };", "    let Some(t) = last_token else {\n        return true;\n    };")],
       [("C09", "R09.1")], base=RTL, note="lexer loop refactor + a terminator at the start of the input is kept")
RTM = "refactors/t-mainio/patch.diff"
mutant("rtm-script-failure-exits-1",
       [(MAIN, "            Failure::ScriptFailed{..} => EXIT_SCRIPT_FAILED,", "            Failure::ScriptFailed{..} => 1,")],
       [("C17", "L5")], also=[("C03", "R03.4")], base=RTM, note="Failure enum + a failing script exits with status 1")
RTO = "refactors/t-option/patch.diff"
mutant("rto-minimum-off-by-one",
       [(E, "                        if num_fixed > got {", "                        if num_fixed + 1 > got {")],
       [("C13", "R13.1")], base=RTO, note="optional rest parameter + a collecting function demands one argument too many")
RTX = "refactors/t-ctx/patch.diff"
mutant("rtx-nested-pattern-gets-fresh-binder",
       [(B, "    fn bind_list(", "    fn fresh(&mut self) -> Binder<'_, 'c> {\n        Binder::new(self.context, self.scopes, self.bind_type)\n    }\n\n    fn bind_list("),
        (B, "            self.bind_next(lhs, rhs, None)", "            self.fresh().bind_next(lhs, rhs, None)")],
       [("C13", "R13.2")], base=RTX, note="Binder struct + a method of the binder creates a second binder (fresh name set) for nested patterns")
RTP = "refactors/t-callphases/patch.diff"
mutant("rtp-body-runs-on-caller-chain",
       [(E, "                run_func_body(context, closure, bindings, &stmts)", "                run_func_body(context, { let _ = closure; scopes.clone() }, bindings, &stmts)")],
       [("C04", "R04.3")], base=RTP, note="call phases + the body runs on (a clone of) the caller's chain")

RTI = "refactors/t-indexing/patch.diff"
CT = "src/eval/container.rs"
mutant("rti-empty-range-assignment-accepted",
       [(CT, "    } else if start >= end {", "    } else if start > end {")],
       [("C11", "R11.4")], base=RTI, note="container module + an empty range is accepted as an assignment target")
mutant("rti-range-end-one-past",
       [(CT, "    } else if end > list_len {", "    } else if end > list_len + 1 {")],
       [("C11", "R11.4")], also=[("C02", "R02.4")], base=RTI, note="container module + a range may end one past the list (panicking write)")
mutant("rti-read-end-defaults-to-start",
       [(CT, "    let end = end.unwrap_or(list_len(list));\n\n    match lock_deref!(list).get(start .. end) {", "    let end = end.unwrap_or(start);\n\n    match lock_deref!(list).get(start .. end) {")],
       [("C11", "R11.5")], base=RTI, note="container module + `xs[a:]` reads an empty range")
mutant("rti-assign-end-defaults-to-rhs-len",
       [(B, "        match container::resolve_list_assign_range(list_len, start, end) {", "        match container::resolve_list_assign_range(list_len, start, end.or(Some(rhs_items.len()))) {")],
       [("C11", "R11.5")], base=RTI, note="container module + an omitted assignment end defaults to the length of the assigned list")

RTS = "refactors/t-scopeapi/patch.diff"
mutant("rts-with-new-scope-does-not-push",
       [(SC, "        chain.push(Arc::new(Mutex::new(Scope::new())));\n", "        if chain.is_empty() {\n            chain.push(Arc::new(Mutex::new(Scope::new())));\n        }\n")],
       [("C04", "R04.4")], also=[("C20", "R20.6")], base=RTS, note="callback-style pusher + a new scope is only opened on an empty chain")
mutant("rts-new-bindings-assigned",
       [(E, "            bind::bind(context, scopes, &lhs, rhs, BindType::Declaration)\n                .context(BindFailed)?;", "            bind::bind(context, scopes, &lhs, rhs, BindType::Assignment)\n                .context(BindFailed)?;")],
       [("C14", "R14.4")], base=RTS, note="callback-style pusher + parameters are assigned instead of declared")
mutant("rts-capture-copies-scopes",
       [(SC, "        ScopeStack(self.0.clone())\n    }\n\n    // `declare`", "        ScopeStack(self.0.iter().map(|s| Arc::new(Mutex::new(s.try_lock().unwrap().clone()))).collect())\n    }\n\n    // `declare`")],
       [("C04", "R04.1")], also=[("C04", "R04.2")], base=RTS, note="capture() + closures capture a deep copy of the scopes (capture by value)")

# ---- round 8 ---------------------------------------------------------------------
RUE = "refactors/u-errors/patch.diff"
mutant("rue-wrapper-dropped-from-peel-helper",
       [("src/eval/error.rs", "            Error::EvalIfConditionFailed{source} |\n", "")],
       [("C17", "L1")], base=RUE, note="peel helper in error.rs + one context wrapper missing from its list")
RUS = "refactors/u-stacktrace/patch.diff"
mutant("rus-wrapper-dropped-from-transparent-list",
       [(MAIN, "        EvalError::EvalWhileConditionFailed{source} |\n", "")],
       [("C17", "L1")], base=RUS, note="into_transparent_source + one context wrapper missing from its list")
RUP = "refactors/u-params/patch.diff"
mutant("rup-index-accepted-as-parameter",
       [(E, "            RawExpr::Index{..} =>\n                return new_invalid_param_err(loc, \"an index operation\"),", "            RawExpr::Index{..} => {},")],
       [("C20", "R20.3")], base=RUP, note="parameter validator with helper-built errors + an index expression is accepted as a parameter")
RUF = "refactors/u-funcvalues/patch.diff"
mutant("ruf-anonymous-fn-captures-empty-chain",
       [(E, "        closure: scopes.clone(),\n    })", "        closure: if name_is_none { ScopeStack::new(vec![]) } else { scopes.clone() },\n    })"),
        (E, "    value::new_func(Func{\n        name,", "    let name_is_none = name.is_none();\n    value::new_func(Func{\n        name,")],
       [("C04", "R04.1")], base=RUF, note="new_closure helper + anonymous functions capture an empty chain")

# ---- round 9 ---------------------------------------------------------------------
RVA = "refactors/v-arms/patch.diff"
mutant("rva-ne-not-negated",
       [(E, "            Ok(Value::Bool(!deep_eq()?)),", "            Ok(Value::Bool(deep_eq()?)),")],
       [("C10", "R10.3")], base=RVA, note="flat match with worker closures + `!=` answers like `==`")
mutant("rva-sub-error-operands-swapped",
       [(E, "            new_int(a.checked_sub(*b), a, b),", "            new_int(a.checked_sub(*b), b, a),")],
       [("C06", "R06.1")], base=RVA, note="flat match with worker closures + the overflow error of `-` reports (rhs, lhs)")
RVR = "refactors/v-results/patch.diff"
mutant("rvr-undefined-variable-reads-null",
       [(E, "            scopes.get(name)\n                .or_else(new_loc_err)", "            scopes.get(name)\n                .or_else(|_| Ok(value::new_null()))")],
       [("C20", "R20.4")], base=RVR, note="Result-returning scope lookup + the Undefined error is replaced by null")
RVG = "refactors/v-generic/patch.diff"
mutant("rvg-into-bool-accepts-int",
       [("src/eval/value.rs", "        Value::Bool(b) => Ok(b),\n        v => Err(v),", "        Value::Bool(b) => Ok(b),\n        Value::Int(n) => Ok(n != 0),\n        v => Err(v),")],
       [("C16", "R16.2")], base=RVG, note="generic coercion helpers + the narrowing function for conditions silently converts ints")

# ---- session 5 (-f batch): R14.6 path-sensitive, R12.9, R11.7 ---------------------
S = "src/eval/scope.rs"
V = "src/eval/value.rs"
mutant("c14-set-keeps-source-when-new-has-none",
       [(S, "pub fn set(slot: &mut SourcedValue, v: SourcedValue) {\n    *slot = v;\n}",
            "pub fn set(slot: &mut SourcedValue, v: SourcedValue) {\n    let SourcedValue{v, source} = v;\n\n    slot.v = v;\n    if source.is_some() {\n        slot.source = source;\n    }\n}")],
       [("C14", "R14.6")], note="conditional store of the other half (seeded C14-f)")
refactor("c14-set-fieldwise-both-halves",
         [(S, "pub fn set(slot: &mut SourcedValue, v: SourcedValue) {\n    *slot = v;\n}",
              "pub fn set(slot: &mut SourcedValue, v: SourcedValue) {\n    let SourcedValue{v, source} = v;\n\n    slot.v = v;\n    slot.source = source;\n}")],
         note="both halves stored unconditionally, field by field")
refactor("c14-set-fieldwise-source-first-then-branch",
         [(S, "pub fn set(slot: &mut SourcedValue, v: SourcedValue) {\n    *slot = v;\n}",
              "pub fn set(slot: &mut SourcedValue, v: SourcedValue) {\n    let SourcedValue{v, source} = v;\n\n    slot.source = source;\n    if slot.source.is_some() {\n        slot.v = v;\n    } else {\n        slot.v = v;\n    }\n}")],
         note="the source store dominates both payload stores")
_SPREAD_OLD = ("                                    for (name, value) in &lock_deref!(props) {\n"
               "                                        vals.insert(\n"
               "                                            name.to_string(),\n"
               "                                            value.clone(),\n"
               "                                        );\n"
               "                                    }\n")
mutant("c12-spread-merged-append-accumulator",
       [(E, _SPREAD_OLD,
            "                                    let mut merged = lock_deref!(props).clone();\n"
            "                                    merged.append(&mut vals);\n"
            "                                    vals = merged;\n")],
       [("C12", "R12.9")], note="earlier entries folded over a later spread (seeded C12-f without the threshold)")
mutant("c12-spread-merged-extend-accumulator",
       [(E, _SPREAD_OLD,
            "                                    let mut merged = lock_deref!(props).clone();\n"
            "                                    merged.extend(std::mem::take(&mut vals));\n"
            "                                    vals = merged;\n")],
       [("C12", "R12.9")], note="the same through Extend::extend")
refactor("c12-spread-extend-into-accumulator",
         [(E, _SPREAD_OLD,
              "                                    let copy = lock_deref!(props).clone();\n"
              "                                    vals.extend(copy);\n")],
         note="bulk merge in the right direction: the accumulator is the receiver")
refactor("c12-spread-append-into-accumulator",
         [(E, _SPREAD_OLD,
              "                                    let mut copy = lock_deref!(props).clone();\n"
              "                                    vals.append(&mut copy);\n")],
         note="BTreeMap::append with the accumulator as the receiver")
_CHARS_OLD = ("                            let chars: Vec<SourcedValue> =\n"
              "                                s.iter()\n"
              "                                    .map(|c| value::new_str(vec![*c]))\n"
              "                                    .collect();\n")
mutant("c11-range-assign-string-by-chars",
       [(B, _CHARS_OLD,
            "                            let chars: Vec<SourcedValue> =\n"
            "                                String::from_utf8_lossy(&s).chars()\n"
            "                                    .map(|c| value::new_str_from_string(c.to_string()))\n"
            "                                    .collect();\n")],
       [("C11", "R11.7")], note="string spread over list slots per character (seeded C11-f inline)")
mutant("c11-range-assign-string-by-chars-loop",
       [(B, _CHARS_OLD,
            "                            let mut chars: Vec<SourcedValue> = vec![];\n"
            "                            let text = String::from_utf8_lossy(&s).to_string();\n"
            "                            for (_, c) in text.char_indices() {\n"
            "                                chars.push(value::new_str_from_string(c.to_string()));\n"
            "                            }\n")],
       [("C11", "R11.7")], note="the same as a loop stepping CharIndices")
refactor("c11-range-assign-string-bytes-loop",
         [(B, _CHARS_OLD,
              "                            let mut chars: Vec<SourcedValue> = vec![];\n"
              "                            for c in s.iter() {\n"
              "                                chars.push(value::new_str(vec![*c]));\n"
              "                            }\n")],
         note="byte-wise split written as a loop")

SC = "src/lexer/scanner.rs"
mutant("c09-scanner-folds-crlf",
       [(SC, "        if let Some((i, c)) = self.chars.next() {\n",
             "        if let Some((i, mut c)) = self.chars.next() {\n            if c == '\\r' && self.chars.as_str().starts_with('\\n') {\n                self.chars.next();\n                c = '\\n';\n            }\n")],
       [("C09", "R09.6"), ("C15", "R15.5")], note="CR LF presented as one `\\n` (seeded C09-f)")
mutant("c09-scanner-tab-to-space",
       [(SC, "            self.cur_char = Some(c);\n",
             "            self.cur_char = Some(if c == '\\t' { ' ' } else { c });\n")],
       [("C09", "R09.6"), ("C15", "R15.5")], note="tabs normalised to spaces, also inside string literals")
refactor("c09-scanner-binds-char-through-local",
         [(SC, "            self.cur_char = Some(c);\n",
               "            let next = c;\n            self.cur_char = Some(next);\n")],
         note="the stored character passes through another local")
mutant("c17-slot-error-flattened-to-string",
       [(E, "                    Error::InterpolateStringEvalExprFailed{\n                        source: Box::new(e),\n                    },",
            "                    Error::InterpolateStringParseFailed{\n                        source_str: e.to_string(),\n                    },")],
       [("C17", "L8")], note="a slot's evaluation error stored as text in another error (seeded C17-f, without the new variant)")

A = "src/ast.rs"
mutant("c16-literal-eq-folded-by-derived-partialeq",
       [(A, "#[derive(Clone, Debug)]\npub enum BinaryOp {",
            "#[derive(PartialEq)]\nenum Lit {\n    Null,\n    Bool(bool),\n    Int(i64),\n}\n\nfn lit_of(e: &RawExpr) -> Option<Lit> {\n    match e {\n        RawExpr::Null => Some(Lit::Null),\n        RawExpr::Bool{b} => Some(Lit::Bool(*b)),\n        RawExpr::Int{n} => Some(Lit::Int(*n)),\n        _ => None,\n    }\n}\n\npub fn fold_eq(lhs: &RawExpr, rhs: &RawExpr) -> Option<RawExpr> {\n    let (l, r) = (lit_of(lhs)?, lit_of(rhs)?);\n\n    Some(RawExpr::Bool{b: l == r})\n}\n\n#[derive(Clone, Debug)]\npub enum BinaryOp {")],
       [("C16", "R16.9")], note="a literal `==` folder through derived PartialEq (the C16 part of seeded C16-f; not wired into the grammar)")

mutant("c15-nested-literal-lookback-escape",
       [(L, "                    if c == '{' {\n                        interpolation_brace_count += 1;\n                    } else if c == '}' {\n                        interpolation_brace_count -= 1;",
            "                    if c == '\"' && !chars.ends_with('\\\\') {\n                        interpolation_brace_count += 0;\n                    } else if c == '{' {\n                        interpolation_brace_count += 1;\n                    } else if c == '}' {\n                        interpolation_brace_count -= 1;")],
       [("C15", "R15.6")], note="escapedness of a quote decided by `ends_with('\\\\')` (the look-back of seeded C15-a / C15-f; positive example for a rule whose expected count is zero)")
