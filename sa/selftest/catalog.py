"""Mutant and refactor catalogues for the both-ways self-test.

Each entry edits /repo's working tree copy by exact string replacement
(file, old, new).  `expect` lists (property, rule) pairs that must report a
violation; every other check run on the mutant must stay silent unless listed
in `also`.  REFACTORS are behaviour-preserving edits: every check must stay
silent on them."""

M = []
R = []


def mutant(name, edits, expect, also=(), note=""):
    M.append({"name": name, "edits": edits, "expect": list(expect),
              "also": list(also), "note": note})


def refactor(name, edits, note=""):
    R.append({"name": name, "edits": edits, "note": note})


G = "src/parser.lalrpop"
E = "src/eval/mod.rs"
B = "src/eval/bind.rs"
L = "src/lexer/mod.rs"
MAIN = "src/main.rs"

# ---- C08 ---------------------------------------------------------------------
mutant("c08-mod-to-additive-tier",
       [(G, '    "+" => BinaryOp::Sum,\n    "-" => BinaryOp::Sub,\n};',
            '    "+" => BinaryOp::Sum,\n    "-" => BinaryOp::Sub,\n    "%" => BinaryOp::Mod,\n};'),
        (G, '    "/" => BinaryOp::Div,\n    "%" => BinaryOp::Mod,\n', '    "/" => BinaryOp::Div,\n')],
       [("C08", "R08.1")], note="`%` moved to the + - tier")
mutant("c08-swap-lhs-rhs-in-tier-action",
       [(G, "            lhs: Box::new((l, l_loc)),\n            rhs: Box::new((r, r_loc)),",
            "            lhs: Box::new((r, r_loc)),\n            rhs: Box::new((l, l_loc)),")],
       [("C08", "R08.2")])
mutant("c08-lte-maps-to-lt",
       [(G, '    "<=" => BinaryOp::Lte,', '    "<=" => BinaryOp::Lt,')],
       [("C08", "R08.2")])
mutant("c08-right-recursive-additive",
       [(G, "pub ExprPrecedence3 = ExprTier<ExprOp3, ExprPrecedence4>;",
            "pub ExprPrecedence3: RawExpr = {\n    <l_loc:@L> <l:ExprPrecedence4> <op_loc:@L> <op:ExprOp3> <r_loc:@L> <r:ExprPrecedence3> =>\n        RawExpr::BinaryOp{op, op_loc, lhs: Box::new((l, l_loc)), rhs: Box::new((r, r_loc))},\n    ExprPrecedence4\n};")],
       [("C08", "R08.1")], note="+ - made right-associative")
mutant("c08-lexer-le-as-lt",
       [(L, "        ('<', '=') => Some(Token::LessThanEquals),", "        ('<', '=') => Some(Token::LessThan),")],
       [("C08", "R08.3")])
refactor("c08-tiers-without-macro",
         [(G, "pub ExprPrecedence3 = ExprTier<ExprOp3, ExprPrecedence4>;",
              "pub ExprPrecedence3: RawExpr = {\n    <l_loc:@L> <l:ExprPrecedence3> <op_loc:@L> <op:ExprOp3> <r_loc:@L> <r:ExprPrecedence4> =>\n        RawExpr::BinaryOp{op, op_loc, lhs: Box::new((l, l_loc)), rhs: Box::new((r, r_loc))},\n    ExprPrecedence4\n};")],
         note="additive tier written out without the ExprTier macro")

# ---- C09 ---------------------------------------------------------------------
mutant("c09-drop-mod-from-continuations",
       [(L, "                    Token::Mod |\n", "")],
       [("C09", "R09.1")])
mutant("c09-add-dotdot-to-continuations",
       [(L, "                    Token::Dot |\n", "                    Token::Dot |\n                    Token::DotDot |\n")],
       [("C09", "R09.1")])
mutant("c09-cr-is-terminator",
       [(L, "            if c == '\\n' || c == ';' {\n                self.scanner.next_char();",
            "            if c == '\\n' || c == ';' || c == '\\r' {\n                self.scanner.next_char();"),
        (L, "                if c == '\\n' || !c.is_ascii_whitespace() {", "                if c == '\\n' || c == '\\r' || !c.is_ascii_whitespace() {")],
       [("C09", "R09.2")])
mutant("c09-block-last-stmt-without-terminator",
       [(G, 'pub Block: Block = {\n    "{" <stmts:Stmt*> "}" => stmts,\n}',
            'pub Block: Block = {\n    "{" <stmts:Stmt*> "}" => stmts,\n    "{" <mut stmts:Stmt*> <last:RawStmt> "}" => { stmts.push(last); stmts },\n}')],
       [("C09", "R09.3")], note="may be rejected by LALRPOP as ambiguous")
refactor("c09-continuation-list-as-matches",
         [(L, "            if let Some(t) = last_token {\n                match t {",
              "            if let Some(t) = last_token {\n                #[allow(clippy::match_like_matches_macro)]\n                match t {")],
         note="attribute only")
