#!/usr/bin/env python3
"""Run every claimed check against every kept behaviour-preserving refactor
(/verif/refactors/<name>/patch.diff: realistic clean-ups written by independent
sub-agents that saw only the repository, confirmed to build, pass the 339 tests
and leave probe scripts byte-identical).  Every check must stay silent; a check
that fires here is a false alarm of the machinery.
usage: refactors.py [--only NAME_SUBSTR] [--jobs N]"""
import concurrent.futures
import glob
import json
import os
import shutil
import subprocess
import sys
import tempfile

VERIF = os.path.dirname(os.path.dirname(os.path.dirname(os.path.abspath(__file__))))


def run_one(d, props):
    name = os.path.basename(os.path.dirname(d))
    w = tempfile.mkdtemp(prefix="rfrun-")
    ev = tempfile.mkdtemp(prefix="rfrun-ev-")
    try:
        subprocess.run(["git", "-C", "/repo", "worktree", "add", "--detach", w, "HEAD"],
                       check=True, stdout=subprocess.DEVNULL, stderr=subprocess.DEVNULL)
        r = subprocess.run(["git", "-C", w, "apply", d], stderr=subprocess.PIPE, text=True)
        if r.returncode != 0:
            return name, {"error": "patch does not apply: " + r.stderr[-200:]}
        env = dict(os.environ, VERIF_EVIDENCE_DIR=ev, VERIF_REPLAY_DIR=ev, VERIF_NO_SELFTEST="1")
        fired = {}
        for pid in props:
            rr = subprocess.run([os.path.join(VERIF, "check"), pid, "--repo", w], cwd=VERIF,
                                env=env, stdout=subprocess.PIPE, stderr=subprocess.STDOUT, text=True)
            if rr.returncode == 1:
                e = json.load(open(os.path.join(ev, pid + ".json")))
                fired[pid] = sorted(set(v["key"] for x in e["coverage"]["rules"] for v in x["violations"]))
            elif rr.returncode != 0:
                fired[pid] = ["CHECK-ERROR rc=%d %s" % (rr.returncode, rr.stdout[-300:])]
        return name, {"silent": not fired, "fired": fired}
    finally:
        subprocess.run(["git", "-C", "/repo", "worktree", "remove", "--force", w],
                       stdout=subprocess.DEVNULL, stderr=subprocess.DEVNULL)
        shutil.rmtree(w, ignore_errors=True)
        shutil.rmtree(ev, ignore_errors=True)


def main():
    only = None
    jobs = 4
    if "--only" in sys.argv:
        only = sys.argv[sys.argv.index("--only") + 1]
    if "--jobs" in sys.argv:
        jobs = int(sys.argv[sys.argv.index("--jobs") + 1])
    man = json.load(open(os.path.join(VERIF, "MANIFEST.json")))
    props = [c["property_id"] for c in man["checks"]]
    if "--props" in sys.argv:      # a slice of the matrix (results not recorded)
        props = sys.argv[sys.argv.index("--props") + 1].split(",")
    ds = sorted(glob.glob(os.path.join(VERIF, "refactors", "*", "patch.diff")))
    if only:
        ds = [d for d in ds if only in os.path.basename(os.path.dirname(d))]
    out = {}
    rc = 0
    with concurrent.futures.ThreadPoolExecutor(max_workers=jobs) as ex:
        for name, res in ex.map(lambda d: run_one(d, props), ds):
            out[name] = res
            if res.get("silent"):
                print("%-12s silent on all %d checks" % (name, len(props)))
            else:
                rc = 1
                print("%-12s FIRED %s" % (name, res.get("fired") or res.get("error")))
    subprocess.run(["git", "-C", "/repo", "worktree", "prune"],
                   stdout=subprocess.DEVNULL, stderr=subprocess.DEVNULL)
    if not only and "--props" not in sys.argv:
        json.dump(out, open(os.path.join(VERIF, "refactors", "RESULTS.json"), "w"), indent=1, sort_keys=True)
    return rc


if __name__ == "__main__":
    sys.exit(main())
