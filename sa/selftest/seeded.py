#!/usr/bin/env python3
"""Run every claimed check against every kept seeded change
(/verif/seeded/<id>/patch.diff applied to a scratch worktree of /repo HEAD,
removed afterwards) and record which checks catch which change.
usage: seeded.py [--only ID_SUBSTR]"""
import glob
import json
import os
import shutil
import subprocess
import sys
import tempfile

VERIF = os.path.dirname(os.path.dirname(os.path.dirname(os.path.abspath(__file__))))


def main():
    only = None
    if "--only" in sys.argv:
        only = sys.argv[sys.argv.index("--only") + 1]
    man = json.load(open(os.path.join(VERIF, "MANIFEST.json")))
    props = [c["property_id"] for c in man["checks"]]
    out = {}
    rc_all = 0
    for d in sorted(glob.glob(os.path.join(VERIF, "seeded", "*", "patch.diff"))):
        sid = os.path.basename(os.path.dirname(d))
        if only and only not in sid:
            continue
        target = json.load(open(os.path.join(os.path.dirname(d), "meta.json"))).get("property", sid[:3])
        w = tempfile.mkdtemp(prefix="seedrun-")
        ev = tempfile.mkdtemp(prefix="seedrun-ev-")
        try:
            subprocess.run(["git", "-C", "/repo", "worktree", "add", "--detach", w, "HEAD"],
                           check=True, stdout=subprocess.DEVNULL, stderr=subprocess.DEVNULL)
            r = subprocess.run(["git", "-C", w, "apply", d], stderr=subprocess.PIPE, text=True)
            if r.returncode != 0:
                out[sid] = {"error": "patch does not apply: " + r.stderr[-200:]}
                print("%-8s ERROR patch does not apply" % sid)
                continue
            env = dict(os.environ, VERIF_EVIDENCE_DIR=ev, VERIF_REPLAY_DIR=ev)
            fired = {}
            for pid in props:
                rr = subprocess.run([os.path.join(VERIF, "check"), pid, "--repo", w], cwd=VERIF,
                                    env=env, stdout=subprocess.PIPE, stderr=subprocess.STDOUT, text=True)
                if rr.returncode == 1:
                    e = json.load(open(os.path.join(ev, pid + ".json")))
                    fired[pid] = sorted(set(v["key"] for x in e["coverage"]["rules"] for v in x["violations"]))
                elif rr.returncode != 0:
                    fired[pid] = ["CHECK-ERROR rc=%d" % rr.returncode]
            caught = target in fired
            out[sid] = {"target": target, "caught_by_target_check": caught, "fired": fired}
            print("%-8s target=%s %s  fired=%s" % (sid, target, "CAUGHT" if caught else "MISSED",
                                                    {k: v[:2] for k, v in fired.items()}))
            if not caught:
                rc_all = 1
        finally:
            subprocess.run(["git", "-C", "/repo", "worktree", "remove", "--force", w],
                           stdout=subprocess.DEVNULL, stderr=subprocess.DEVNULL)
            shutil.rmtree(w, ignore_errors=True)
            shutil.rmtree(ev, ignore_errors=True)
            subprocess.run(["git", "-C", "/repo", "worktree", "prune"],
                           stdout=subprocess.DEVNULL, stderr=subprocess.DEVNULL)
    if not only:
        json.dump(out, open(os.path.join(VERIF, "seeded", "RESULTS.json"), "w"), indent=1)
    return rc_all


if __name__ == "__main__":
    sys.exit(main())
