#!/usr/bin/env python3
"""Run every claimed check against every kept seeded change
(/verif/seeded/<id>/patch.diff applied to a scratch worktree of /repo HEAD,
removed afterwards) and record which checks catch which change.
usage: seeded.py [--only ID_SUBSTR]"""
import glob
import json
import os
import shutil
import subprocess
import sys
import tempfile

VERIF = os.path.dirname(os.path.dirname(os.path.dirname(os.path.abspath(__file__))))


def main():
    only = None
    if "--only" in sys.argv:
        only = sys.argv[sys.argv.index("--only") + 1]
    man = json.load(open(os.path.join(VERIF, "MANIFEST.json")))
    props = [c["property_id"] for c in man["checks"]]
    out = {}
    rc_all = 0
    jobs = int(sys.argv[sys.argv.index("--jobs") + 1]) if "--jobs" in sys.argv else 6

    def one(d):
        sid = os.path.basename(os.path.dirname(d))
        target = json.load(open(os.path.join(os.path.dirname(d), "meta.json"))).get("property", sid[:3])
        w = tempfile.mkdtemp(prefix="seedrun-")
        ev = tempfile.mkdtemp(prefix="seedrun-ev-")
        try:
            subprocess.run(["git", "-C", "/repo", "worktree", "add", "--detach", w, "HEAD"],
                           check=True, stdout=subprocess.DEVNULL, stderr=subprocess.DEVNULL)
            r = subprocess.run(["git", "-C", w, "apply", d], stderr=subprocess.PIPE, text=True)
            if r.returncode != 0:
                return sid, {"error": "patch does not apply: " + r.stderr[-200:]}
            env = dict(os.environ, VERIF_EVIDENCE_DIR=ev, VERIF_REPLAY_DIR=ev, VERIF_NO_SELFTEST="1")
            fired = {}
            for pid in props:
                rr = subprocess.run([os.path.join(VERIF, "check"), pid, "--repo", w], cwd=VERIF,
                                    env=env, stdout=subprocess.PIPE, stderr=subprocess.STDOUT, text=True)
                if rr.returncode == 1:
                    e = json.load(open(os.path.join(ev, pid + ".json")))
                    fired[pid] = sorted(set(v["key"] for x in e["coverage"]["rules"] for v in x["violations"]))
                elif rr.returncode != 0:
                    fired[pid] = ["CHECK-ERROR rc=%d" % rr.returncode]
            return sid, {"target": target, "caught_by_target_check": target in fired, "fired": fired}
        finally:
            subprocess.run(["git", "-C", "/repo", "worktree", "remove", "--force", w],
                           stdout=subprocess.DEVNULL, stderr=subprocess.DEVNULL)
            shutil.rmtree(w, ignore_errors=True)
            shutil.rmtree(ev, ignore_errors=True)
    from concurrent.futures import ThreadPoolExecutor
    ds = [d for d in sorted(glob.glob(os.path.join(VERIF, "seeded", "*", "patch.diff")))
          if not only or only in os.path.basename(os.path.dirname(d))]
    with ThreadPoolExecutor(max_workers=jobs) as ex:
        for sid, res in ex.map(one, ds):
            out[sid] = res
            if "error" in res:
                print("%-8s ERROR %s" % (sid, res["error"]))
                rc_all = 1
                continue
            print("%-8s target=%s %s  fired=%s" % (sid, res["target"], "CAUGHT" if res["caught_by_target_check"] else "MISSED",
                                                    {k: v[:2] for k, v in res["fired"].items()}))
            if not res["caught_by_target_check"]:
                rc_all = 1
    subprocess.run(["git", "-C", "/repo", "worktree", "prune"], stdout=subprocess.DEVNULL, stderr=subprocess.DEVNULL)
    if not only:
        json.dump(out, open(os.path.join(VERIF, "seeded", "RESULTS.json"), "w"), indent=1)
    return rc_all


if __name__ == "__main__":
    sys.exit(main())
