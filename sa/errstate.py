"""A5 — error typestate ("located" analysis).

Abstract value of anything that carries an `eval::error::Error` (the error
itself, a Box of it, a Result/ControlFlow around it): a set of
  ('L',)                        located: an AtLoc (or locator context) wraps it
  ('B', variant, origin_fn)     bare leaf `variant`, created in origin_fn
  ('U', reason, fn)             producer the analysis does not model
  ('P', n)                      whatever the caller passed as parameter n
                                (substituted at every call site, so a helper
                                that may hand its argument back un-located is
                                judged with the argument's own state)
Per function a summary R(f) (abstract value of the return place) is computed
as a least fixpoint over the whole crate.  Wrapper variants (those with a
Box<Error> source) keep the state of what they wrap.
"""
import re

import mir

ERR = "eval::error::Error"
LOCATOR_SELECTORS = {"AtLoc", "EvalBuiltinFuncCallFailed"}

PASS_THROUGH = (
    "std::ops::Try::branch",
    "std::ops::FromResidual::from_residual",
    "std::boxed::Box::<T>::new",
    "std::convert::From::from",
    "std::convert::Into::into",
    "std::clone::Clone::clone",
    "std::result::Result::<T, E>::map",
    "std::result::Result::<T, E>::unwrap_err",
    "std::result::Result::<T, E>::err",
    "std::option::Option::<T>::unwrap",
    "std::hint::must_use",
)


class ErrState:
    def __init__(self, prog):
        self.prog = prog
        self.err_adt = prog.adts.get(ERR)
        self.wrappers = set()
        self.leaves = set()
        if self.err_adt:
            for v in self.err_adt["variants"]:
                if any(f["ty"] == "std::boxed::Box<eval::error::Error>"
                       for f in v["fields"]):
                    self.wrappers.add(v["name"])
                else:
                    self.leaves.add(v["name"])
        self.R = {}
        self.fns = [f for f in prog.fns.values()
                    if f.full and f.locals and ERR in f.locals[0]]
        for f in self.fns:
            self.R[f.path] = frozenset()
        self._solve()

    def mentions_err(self, ty):
        return ERR in ty

    def _solve(self):
        changed = True
        rounds = 0
        while changed and rounds < 50:
            changed = False
            rounds += 1
            for f in self.fns:
                new = self._fn_summary(f)
                if new != self.R[f.path]:
                    self.R[f.path] = new
                    changed = True

    def _fn_summary(self, f):
        memo = {}
        return self._local(f, 0, memo, set())

    # status of all values a bare local can hold
    def _local(self, f, local, memo, visiting):
        key = local
        if key in memo:
            return memo[key]
        if key in visiting:
            return frozenset()
        if local >= len(f.locals) or not self.mentions_err(f.locals[local]):
            return frozenset()
        visiting.add(key)
        out = set()
        if 1 <= local <= f.arg_count:
            if f.is_closure:
                out.add(("U", "parameter", f.path))
            else:
                out.add(("P", local))
        for (bb, idx, kind, payload) in f.defs().get(local, []):
            if kind == "call":
                out |= self._call(f, payload, memo, visiting)
            else:
                out |= self._rvalue(f, payload, memo, visiting)
        visiting.discard(key)
        res = frozenset(out)
        memo[key] = res
        return res

    def _operand(self, f, op, memo, visiting):
        if mir.is_place_operand(op):
            pl = mir.op_place(op)
            return self._local(f, pl[0], memo, visiting)
        return frozenset()

    def _rvalue(self, f, rv, memo, visiting):
        k = rv[0]
        if k == "use":
            return self._operand(f, rv[1], memo, visiting)
        if k in ("cfd",):
            return self._local(f, rv[1][0], memo, visiting)
        if k == "ref":
            return self._local(f, rv[2][0], memo, visiting)
        if k == "cast":
            return self._operand(f, rv[2], memo, visiting)
        if k == "agg":
            kd = rv[1]
            ops = rv[2]
            if kd.get("k") == "adt":
                if kd["adt"] == ERR:
                    v = kd["variant"]
                    if v == "AtLoc":
                        return frozenset([("L",)])
                    if v in self.wrappers:
                        out = set()
                        for o in ops:
                            out |= self._operand(f, o, memo, visiting)
                        if v in LOCATOR_SELECTORS:
                            return frozenset([("L",)])
                        return frozenset(out)
                    return frozenset([("B", v, f.root_fn().path)])
                if kd["adt"] == "std::result::Result" and kd["variant"] == "Ok":
                    return frozenset()
                out = set()
                for o in ops:
                    out |= self._operand(f, o, memo, visiting)
                return frozenset(out)
            if kd.get("k") in ("tuple", "array"):
                out = set()
                for o in ops:
                    out |= self._operand(f, o, memo, visiting)
                return frozenset(out)
            return frozenset()
        return frozenset()

    def _call(self, f, c, memo, visiting):
        if c.dstty is not None and not self.mentions_err(c.dstty):
            return frozenset()
        if c.is_ptr:
            # builtin function pointer: union over address-taken candidates
            out = set()
            for p in self.prog.fnptr_targets(c):
                out |= {e for e in self.R.get(p, frozenset()) if e[0] != "P"}
            if not out:
                out.add(("U", "fn-pointer", f.path))
            return frozenset(out)
        res = c.res
        decl = c.declared
        if decl == "snafu::ResultExt::context" or res == "snafu::ResultExt::context" \
                or (decl or "").endswith("ResultExt::context"):
            sel_ty = c.argtys[1] if len(c.argtys) > 1 else ""
            sel = sel_ty.split("<")[0].split("::")[-1]
            src_ty = c.argtys[0] if c.argtys else ""
            if sel in LOCATOR_SELECTORS:
                return frozenset([("L",)])
            if self.mentions_err(src_ty):
                return self._operand(f, c.args[0], memo, visiting)
            # foreign source error: the selector's variant becomes a leaf
            return frozenset([("B", sel, f.root_fn().path)])
        if res in self.prog.fns and self.prog.fns[res].full:
            if res in self.R:
                out = set()
                for e in self.R[res]:
                    if e[0] == "P":
                        if e[1] - 1 < len(c.args):
                            out |= self._operand(f, c.args[e[1] - 1], memo, visiting)
                    else:
                        out.add(e)
                return frozenset(out)
            return frozenset()
        for p in PASS_THROUGH:
            if decl == p or res == p:
                out = set()
                for a in c.args:
                    out |= self._operand(f, a, memo, visiting)
                return frozenset(out)
        if decl == "std::result::Result::<T, E>::and_then":
            # Err(e) passes through; Ok(v) -> closure(v)
            out = set(self._operand(f, c.args[0], memo, visiting))
            out |= self._closure_arg(f, c, 1)
            return frozenset(out)
        if decl == "std::result::Result::<T, E>::or_else":
            # Err(e) -> closure(e): only what the closure returns can be an error
            return frozenset(self._closure_arg(f, c, 1))
        if decl in ("std::result::Result::<T, E>::map_err",
                    "std::option::Option::<T>::ok_or_else"):
            return frozenset(self._closure_arg(f, c, 1))
        if decl == "std::option::Option::<T>::ok_or":
            return self._operand(f, c.args[1], memo, visiting)
        return frozenset([("U", "call %s" % (decl or res), f.path)])

    def _closure_arg(self, f, c, i):
        if i < len(c.argtys):
            ty = c.argtys[i]
            m = re.search(r"\{closure@[^}]*\}", ty)
            # closure types print as {closure@path:line:col: ...}; match by
            # def path through the aggregate instead
            if mir.is_place_operand(c.args[i]):
                cp = f.canon(mir.op_place(c.args[i]))
                root = cp[0]
                if root[0] == "agg":
                    st = f.stmts(root[1])[root[2]]
                    kd = st[2][1]
                    if kd.get("k") == "closure":
                        return set(self.R.get(kd["def"], frozenset()))
            k = mir.op_const(c.args[i])
            if k and "fn" in k:
                return set(self.R.get(k["fn"], frozenset()))
        return {("U", "closure-arg of %s" % c.declared, f.path)}

    def summary(self, path):
        out = set()
        for e in self.R.get(path, frozenset()):
            if e[0] == "P":
                out.add(("U", "parameter %d" % e[1], path))
            else:
                out.add(e)
        return frozenset(out)
