#!/usr/bin/env python3
"""usage: dbg_rule.py <repo> <module> <rule_fn> [--views]  — run one rule function and print its violations/instances"""
import importlib
import os
import sys
HERE = os.path.dirname(os.path.dirname(os.path.dirname(os.path.abspath(__file__))))
sys.path.insert(0, os.path.join(HERE, "sa"))
sys.path.insert(0, os.path.join(HERE, "sa", "props"))
sys.setrecursionlimit(100000)
import facts  # noqa: E402
import mir  # noqa: E402
from framework import Ctx  # noqa: E402

repo, mod, rule = sys.argv[1], sys.argv[2], sys.argv[3]
fs, parser_rs, meta = facts.load(repo)
prog = mir.Program(fs)
ctx = Ctx(prog, parser_rs, repo, "quick", meta)
prog.grammar_thunk = lambda: ctx.grammar
import anchors, locks  # noqa: E402
locks.SCOPE_MAP_TY[0] = anchors.scope_map_ty(prog)
m = importlib.import_module(mod)
if "--views" in sys.argv:
    import c11
    c11.VIEW_MODE[0] = True
r = getattr(m, rule)(ctx)
for x in (r if isinstance(r, list) else [r]):
    print(x.rule, "violations:", len(x.violations), "unproven:", len(x.unproven))
    for v in x.violations:
        print("  V", v.key, "|", str(v.message)[:300])
    for i in x.instances[:40]:
        print("  I", str(i)[:300])
    for u in x.unproven[:10]:
        print("  U", str(u)[:300])
