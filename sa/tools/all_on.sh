#!/bin/sh
# usage: all_on.sh <repo-dir> [ids...] — run checks against a tree, print only failures
D=$1; shift
IDS=${*:-C02 C03 C04 C05 C06 C07 C08 C09 C10 C11 C12 C13 C14 C15 C16 C17 C19 C20}
E=$(mktemp -d /tmp/allon-ev.XXXXXX)
for p in $IDS; do
  ( VERIF_NO_SELFTEST=1 VERIF_EVIDENCE_DIR=$E VERIF_REPLAY_DIR=$E /verif/check $p --repo "$D" > $E/$p.out 2>&1; echo "$p rc=$?" > $E/$p.rc ) &
done
wait
for p in $IDS; do
  rc=$(cat $E/$p.rc)
  case "$rc" in *rc=0) ;; *) echo "== $rc"; grep -A3 "^  R\|^  L\|CHECK-ERROR\|BUILD" $E/$p.out | grep -v "^VIOLATION" | head -${LINES_MAX:-24};; esac
done
echo "done: $(cat $E/*.rc | grep -c 'rc=0') silent of $(ls $E/*.rc | wc -l)"
rm -rf $E
