#!/usr/bin/env python3
"""Debug helper: pretty-print the MIR facts of one function."""
import sys, os, json, glob
sys.path.insert(0, os.path.join(os.path.dirname(__file__), '..'))
import mir, facts

def pl(p):
    s = "_%d" % p[0]
    for pr in p[1]:
        if pr == "*": s = "(*%s)" % s
        elif pr[0] == "f": s = "%s.%d%s" % (s, pr[1], ("{%s}" % pr[3]) if pr[3] else "")
        elif pr[0] == "d": s = "(%s as %s)" % (s, pr[1])
        elif pr[0] == "i": s = "%s[_%d]" % (s, pr[1])
        else: s = "%s%s" % (s, pr)
    return s

def op(o):
    if o[0] == "cp": return "copy " + pl(o[1])
    if o[0] == "mv": return "move " + pl(o[1])
    if o[0] == "k":
        c = o[1]
        if "fn" in c: return "fn:" + c["fn_full"]
        if "v" in c: return "const %r" % (c["v"],)
        return "const<%s>" % c["ty"]
    return str(o)

def rv(r):
    k = r[0]
    if k == "use": return op(r[1])
    if k == "ref": return "&%s %s" % (r[1], pl(r[2]))
    if k == "agg":
        kd = r[1]
        if kd["k"] == "adt": return "%s::%s{%s}" % (kd["adt"], kd["variant"], ", ".join("%s: %s" % (f, op(o)) for f, o in zip(kd["fields"], r[2])))
        return "%s(%s)" % (kd.get("def", kd["k"]), ", ".join(op(o) for o in r[2]))
    if k == "bin": return "%s(%s, %s)" % (r[1], op(r[2]), op(r[3]))
    if k == "un": return "%s(%s)" % (r[1], op(r[2]))
    if k == "discr": return "discriminant(%s) : %s" % (pl(r[1]), r[2])
    if k == "cast": return "%s as %s [%s]" % (op(r[2]), r[3], r[1])
    if k == "cfd": return "deref_copy " + pl(r[1])
    if k == "addr": return "&raw %s" % pl(r[2])
    return str(r)

def main():
    repo = sys.argv[2] if len(sys.argv) > 2 else "/repo"
    name = sys.argv[1]
    fs, ps, meta = facts.load(repo)
    P = mir.Program(fs)
    cands = [p for p in P.fns if name == p] or [p for p in P.fns if name in p]
    for p in cands[:3]:
        f = P.fns[p]
        print("fn", p, "module", f.module, "args", f.arg_count, "blocks", len(f.blocks))
        if not f.full:
            print(json.dumps(f.j, indent=1)[:3000]); continue
        for i, t in enumerate(f.locals):
            print("  let _%d: %s %s" % (i, t, f.debug_name(i) or ""))
        for bb, b in enumerate(f.blocks):
            if b["cleanup"] and "--cleanup" not in sys.argv: continue
            print(" bb%d%s:" % (bb, " (cleanup)" if b["cleanup"] else ""))
            for s in b["s"]:
                if s[0] == "=": print("    %s = %s      // %s" % (pl(s[1]), rv(s[2]), mir.span_loc(s[3]).split('/')[-1]))
                elif s[0] in ("live", "dead"):
                    if "--storage" in sys.argv: print("    %s _%d" % (s[0], s[1]))
                else: print("    ", s)
            t = b["t"]
            k = t["k"]
            if k == "call":
                c = t["callee"]
                nm = c.get("res_full") or c.get("full") or ("ptr " + op(c["ptr"]))
                print("    %s = %s(%s) -> bb%s      // %s %s" % (pl(t["dst"]), nm, ", ".join(op(a) for a in t["args"]), t["t"], mir.span_loc(t["span"]).split('/')[-1], mir.span_macros(t["span"])))
            elif k == "switch":
                print("    switch %s [%s] %s else bb%d" % (op(t["on"]), t["ty"], t["targets"], t["else"]))
            elif k == "drop": print("    drop(%s : %s) -> bb%d" % (pl(t["place"]), t["ty"], t["t"]))
            elif k == "assert": print("    assert(%s == %s, %s %s) -> bb%d" % (op(t["cond"]), t["expected"], t["kind"], [op(o) for o in t["ops"]], t["t"]))
            elif k == "goto": print("    goto bb%d" % t["t"])
            else: print("    ", k)

main()
