#!/usr/bin/env python3
"""Generate /verif/MANIFEST.json from the property modules present."""
import importlib
import json
import os
import sys

HERE = os.path.dirname(os.path.abspath(__file__))
VERIF = os.path.dirname(os.path.dirname(HERE))
sys.path.insert(0, os.path.join(VERIF, "sa"))
sys.path.insert(0, os.path.join(VERIF, "sa", "props"))

NOT_APPLICABLE = {
    "C01": "whole-program equivalence with a prose semantics quantifies over "
           "program text, runtime values and output bytes; no clause beyond "
           "those claimed under C02/C07/C16/C17/C20 has its truth in the "
           "shape of the code (DESIGN §4 C01)",
    "C18": "reported positions are line/column arithmetic over the input "
           "text and an invariance between two runs on two inputs; a static "
           "rule would restate the arithmetic or duplicate the tests "
           "(DESIGN §4 C18)",
}
PENDING = "check not built yet in this session (DESIGN §0 plans a partial static claim)"

ALL = ["C%02d" % i for i in range(1, 21)]


def main():
    checks = []
    na = []
    served = []
    for pid in ALL:
        modp = os.path.join(VERIF, "sa", "props", pid.lower() + ".py")
        if pid in NOT_APPLICABLE:
            na.append({"property_id": pid, "reason": NOT_APPLICABLE[pid]})
            continue
        if not os.path.exists(modp):
            na.append({"property_id": pid, "reason": PENDING})
            continue
        mod = importlib.import_module(pid.lower())
        m = mod.META
        served.append(pid)
        checks.append({
            "property_id": pid,
            "quick_cmd": "./check %s --tier quick" % pid,
            "thorough_cmd": "./check %s --tier thorough" % pid,
            "evidence_file": "evidence/%s.json" % pid,
            "replay_cmd_template": "./check %s --replay {path}" % pid,
            "engine": "seedfacts+rules",
            "level_claimed": {
                "category": m["level"],
                "text": m["level_text"] if "level_text" in m else m["explanation"],
                "design_ref": "DESIGN.md §4 %s" % pid,
            },
            "level_note": "Trusted base: " + "; ".join(m["trusted_base"])
                          + ". Assumptions: " + "; ".join(m["assumptions"]),
            "technique": m["technique"],
        })
    man = {
        "version": 1,
        "setup_cmd": "./setup.sh",
        "hooks": {
            "guard": "ezanmoto_seed_verif",
            "enable": "none needed: static analysis reads the unmodified "
                      "build (cargo +nightly check through the seedfacts "
                      "driver); no instrumentation exists in /repo",
            "baseline_off_cmd": "cd /repo && cargo test --workspace --no-fail-fast --offline",
            "source_commits": [],
            "add_only": True,
        },
        "engines": [
            {"name": "seedfacts", "path": "sa/seedfacts",
             "serves_properties": served,
             "kind_free_text": "rustc_private driver (RUSTC_WORKSPACE_WRAPPER "
                               "under cargo +nightly check): dumps "
                               "type-resolved MIR facts as JSON"},
            {"name": "rules", "path": "sa",
             "serves_properties": served,
             "kind_free_text": "Python static analyses over the MIR facts "
                               "and over LALRPOP's normalised grammar: CFG/"
                               "dominators, variant decision tables, error "
                               "typestate, guard liveness, provenance"},
        ],
        "checks": checks,
        "not_applicable": na,
        "notes": "Technique family: static analysis only. Every check "
                 "re-extracts facts from /repo's working tree (content-hash "
                 "cache under /verif/.cache). Exit 2 = tree does not build.",
    }
    with open(os.path.join(VERIF, "MANIFEST.json"), "w") as fh:
        json.dump(man, fh, indent=1)
        fh.write("\n")
    print("claimed:", served)
    print("not claimed:", [x["property_id"] for x in na])


main()
