#!/bin/sh
# usage: with_patch.sh <patch.diff> <check-id>...   — run checks against a scratch
# worktree of /repo with the patch applied; evidence/replay go to a temp dir.
set -e
PATCH=$(readlink -f "$1"); shift
W=$(mktemp -d /tmp/seedmut.XXXXXX)
E=$(mktemp -d /tmp/seedmut-ev.XXXXXX)
trap 'git -C /repo worktree remove --force "$W" >/dev/null 2>&1; rm -rf "$W" "$E"; git -C /repo worktree prune' EXIT
git -C /repo worktree add --detach "$W" HEAD >/dev/null 2>&1
git -C "$W" apply "$PATCH"
cd /verif
rc=0
for id in "$@"; do
  VERIF_EVIDENCE_DIR="$E" VERIF_REPLAY_DIR="$E" ./check "$id" --repo "$W" || rc=$?
done
exit $rc
