#!/usr/bin/env python3
"""Confirm a seeded change produced by a sub-agent and run the checks on it.

usage: seeded.py <id> [<worktree>]   (id like C07-a; worktree defaults /tmp/sw/<id>)
Steps: patch.diff == `git diff` of the worktree; the change builds and the 339
tests pass; every demo*.sd behaves differently with and without the change;
then every claimed check is run against the worktree (evidence in a temp dir).
Writes /verif/seeded/<id>/{patch.diff,demo*.sd,demo_expected.txt,meta.json}."""
import glob
import json
import os
import shutil
import subprocess
import sys
import tempfile

VERIF = os.path.dirname(os.path.dirname(os.path.dirname(os.path.abspath(__file__))))


def sh(cmd, cwd=None, env=None, timeout=1800):
    r = subprocess.run(cmd, cwd=cwd, env=env, shell=isinstance(cmd, str),
                       stdout=subprocess.PIPE, stderr=subprocess.PIPE, text=True, timeout=timeout)
    return r.returncode, r.stdout, r.stderr


def run_demo(binary, script):
    d = os.path.dirname(script)
    rc, out, err = sh([binary, os.path.basename(script)], cwd=d, timeout=60)
    return {"exit": rc, "stdout": out, "stderr": err}


def main():
    sid = sys.argv[1]
    wt = sys.argv[2] if len(sys.argv) > 2 else "/tmp/sw/" + sid
    src = "/tmp/seeded-out/" + sid
    dst = os.path.join(VERIF, "seeded", sid)
    os.makedirs(dst, exist_ok=True)
    rep = {"id": sid}
    # 1. the patch is the worktree's diff
    rc, diff, _ = sh(["git", "-C", wt, "diff"])
    patch = open(os.path.join(src, "patch.diff")).read()
    rep["patch_matches_worktree"] = (diff.strip() == patch.strip())
    if not rep["patch_matches_worktree"]:
        # trust the worktree: regenerate
        patch = diff
    # applies cleanly to /repo HEAD?
    t = tempfile.mkdtemp(prefix="seedchk-")
    sh(["git", "-C", "/repo", "worktree", "add", "--detach", t, "HEAD"])
    pf = os.path.join(dst, "patch.diff")
    open(pf, "w").write(patch if patch.endswith("\n") else patch + "\n")
    rc, _, err = sh(["git", "-C", t, "apply", "--check", pf])
    rep["applies_to_repo_head"] = (rc == 0)
    sh(["git", "-C", "/repo", "worktree", "remove", "--force", t])
    shutil.rmtree(t, ignore_errors=True)
    sh(["git", "-C", "/repo", "worktree", "prune"])
    # 2. builds, tests pass (in the agent's scratch worktree)
    env = dict(os.environ, CARGO_NET_OFFLINE="true")
    rc, out, err = sh("cargo build --offline 2>&1 | tail -3", cwd=wt, env=env)
    rep["builds"] = os.path.exists(os.path.join(wt, "target/debug/seed"))
    rc, out, err = sh("cargo test --offline --no-fail-fast 2>&1 | grep -E '^test result'", cwd=wt, env=env)
    rep["test_results"] = out.strip().splitlines()
    passed = sum(int(l.split("ok. ")[1].split(" passed")[0]) for l in rep["test_results"] if "ok. " in l)
    failed = any("FAILED" in l or " 0 failed" not in l for l in rep["test_results"])
    rep["tests_passed"] = passed
    rep["tests_all_pass"] = (passed == 339 and not failed)
    # 3. demos differ
    sh("cargo build --offline 2>&1 | tail -1", cwd="/repo", env=env)
    orig = "/repo/target/debug/seed"
    changed = os.path.join(wt, "target/debug/seed")
    demos = sorted(glob.glob(os.path.join(src, "demo*.sd")))
    rep["demos"] = {}
    for d in demos:
        shutil.copy(d, dst)
        a = run_demo(orig, os.path.join(dst, os.path.basename(d)))
        b = run_demo(changed, os.path.join(dst, os.path.basename(d)))
        rep["demos"][os.path.basename(d)] = {"differs": a != b, "unchanged": a, "with_change": b}
    rep["demo_manifests"] = any(v["differs"] for v in rep["demos"].values())
    for f in ("demo_expected.txt",):
        if os.path.exists(os.path.join(src, f)):
            shutil.copy(os.path.join(src, f), dst)
    # 4. run every claimed check on the changed tree
    man = json.load(open(os.path.join(VERIF, "MANIFEST.json")))
    ev = tempfile.mkdtemp(prefix="seedchk-ev-")
    fired = {}
    e2 = dict(os.environ, VERIF_EVIDENCE_DIR=ev, VERIF_REPLAY_DIR=ev)
    for c in man["checks"]:
        pid = c["property_id"]
        rc, out, err = sh([os.path.join(VERIF, "check"), pid, "--repo", wt], cwd=VERIF, env=e2)
        if rc not in (0, 1):
            fired[pid] = "ERROR rc=%d %s" % (rc, out[-300:])
            continue
        if rc == 1:
            try:
                e = json.load(open(os.path.join(ev, pid + ".json")))
                keys = []
                for rr in e["coverage"]["rules"]:
                    for v in rr["violations"]:
                        keys.append(v["key"])
                fired[pid] = keys
            except Exception as ex:  # noqa
                fired[pid] = "rc=1 but no evidence: %s" % ex
    shutil.rmtree(ev, ignore_errors=True)
    rep["checks_fired"] = fired
    meta = {}
    mp = os.path.join(src, "meta.json")
    if os.path.exists(mp):
        try:
            meta = json.load(open(mp))
        except Exception:  # noqa
            meta = {"raw": open(mp).read()}
    meta["confirmation"] = {k: v for k, v in rep.items() if k != "demos"}
    meta["confirmation"]["demos"] = {k: {"differs": v["differs"],
                                         "unchanged_exit": v["unchanged"]["exit"],
                                         "with_change_exit": v["with_change"]["exit"]}
                                     for k, v in rep["demos"].items()}
    meta["what_i_ran"] = [
        "git -C <scratch worktree> diff == patch.diff; git apply --check on a fresh worktree of /repo HEAD",
        "cargo build --offline && cargo test --offline --no-fail-fast in the scratch worktree (339 expected)",
        "each demo*.sd with /repo/target/debug/seed (unchanged) and the scratch worktree's binary",
        "./check <ID> --repo <scratch worktree> for every claimed property",
    ]
    json.dump(meta, open(os.path.join(dst, "meta.json"), "w"), indent=1)
    print(json.dumps({k: v for k, v in rep.items() if k != "demos"}, indent=1))
    for k, v in rep["demos"].items():
        print(k, "differs" if v["differs"] else "SAME", v["unchanged"]["exit"], "->", v["with_change"]["exit"])


main()
