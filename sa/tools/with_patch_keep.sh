#!/bin/sh
# usage: with_patch_keep.sh <patch.diff> <dir>  — create scratch worktree <dir> of /repo HEAD with the patch applied (caller removes it)
set -e
git -C /repo worktree add --detach "$2" HEAD >/dev/null 2>&1
git -C "$2" apply "$(readlink -f "$1")"
