// seedfacts: a rustc_private driver that dumps type-resolved MIR facts of one
// crate as JSON. It is injected as RUSTC_WORKSPACE_WRAPPER under
// `cargo +nightly check`. It never runs or interprets the analysed program: it
// only serialises what the compiler computed (MIR bodies, resolved callees,
// ADT layouts, attributes).
#![feature(rustc_private)]

extern crate rustc_abi;
extern crate rustc_driver;
extern crate rustc_hir;
extern crate rustc_interface;
extern crate rustc_middle;
extern crate rustc_span;

use std::collections::BTreeMap;
use std::fmt::Write as _;

use rustc_driver::Compilation;
use rustc_hir::def::DefKind;
use rustc_hir::def_id::{DefId, LocalDefId};
use rustc_middle::mir::{
    AggregateKind, AssertKind, BasicBlock, Body, BorrowKind, CastKind, Const,
    Operand, Place, ProjectionElem, Rvalue, StatementKind, TerminatorKind, UnwindAction,
    VarDebugInfoContents,
};
use rustc_middle::ty::print::with_no_trimmed_paths;
use rustc_middle::ty::{self, Instance, InstanceKind, Ty, TyCtxt, TypingEnv};
use rustc_span::Span;

// ---------------------------------------------------------------------------
// tiny JSON writer

fn jstr(out: &mut String, s: &str) {
    out.push('"');
    for c in s.chars() {
        match c {
            '"' => out.push_str("\\\""),
            '\\' => out.push_str("\\\\"),
            '\n' => out.push_str("\\n"),
            '\r' => out.push_str("\\r"),
            '\t' => out.push_str("\\t"),
            c if (c as u32) < 0x20 => {
                let _ = write!(out, "\\u{:04x}", c as u32);
            }
            c => out.push(c),
        }
    }
    out.push('"');
}

fn js(s: &str) -> String {
    let mut o = String::new();
    jstr(&mut o, s);
    o
}

fn jlist(items: &[String]) -> String {
    let mut o = String::from("[");
    for (i, it) in items.iter().enumerate() {
        if i > 0 {
            o.push(',');
        }
        o.push_str(it);
    }
    o.push(']');
    o
}

fn jobj(items: &[(&str, String)]) -> String {
    let mut o = String::from("{");
    for (i, (k, v)) in items.iter().enumerate() {
        if i > 0 {
            o.push(',');
        }
        jstr(&mut o, k);
        o.push(':');
        o.push_str(v);
    }
    o.push('}');
    o
}

fn jnum_u128(v: u128) -> String {
    if v < (1u128 << 53) {
        format!("{}", v)
    } else {
        js(&format!("{}", v))
    }
}

// ---------------------------------------------------------------------------

struct Cx<'tcx> {
    tcx: TyCtxt<'tcx>,
    // type string -> [(discr value, variant name)]
    enums: BTreeMap<String, Vec<(u128, String)>>,
}

impl<'tcx> Cx<'tcx> {
    fn ty_str(&self, ty: Ty<'tcx>) -> String {
        with_no_trimmed_paths!(format!("{}", ty))
    }

    fn path(&self, def: DefId) -> String {
        with_no_trimmed_paths!(self.tcx.def_path_str(def))
    }

    fn path_args(&self, def: DefId, args: ty::GenericArgsRef<'tcx>) -> String {
        with_no_trimmed_paths!(self.tcx.def_path_str_with_args(def, args))
    }

    fn span_str(&self, span: Span) -> String {
        let sm = self.tcx.sess.source_map();
        let cs = span.source_callsite();
        let lo = sm.lookup_char_pos(cs.lo());
        let name = with_no_trimmed_paths!(format!("{}", lo.file.name.prefer_local_unconditionally()));
        format!("{}:{}:{}", name, lo.line, lo.col.0 + 1)
    }

    fn macros(&self, span: Span) -> Vec<String> {
        let mut v = vec![];
        for ed in span.macro_backtrace() {
            match ed.kind {
                rustc_span::ExpnKind::Macro(_, name) => v.push(name.to_string()),
                rustc_span::ExpnKind::Desugaring(d) => v.push(format!("desugar:{:?}", d)),
                rustc_span::ExpnKind::AstPass(p) => v.push(format!("astpass:{:?}", p)),
                rustc_span::ExpnKind::Root => {}
            }
        }
        v
    }

    fn span_json(&self, span: Span) -> String {
        let macs = self.macros(span);
        if macs.is_empty() {
            js(&self.span_str(span))
        } else {
            let ms: Vec<String> = macs.iter().map(|m| js(m)).collect();
            // [callsite, [macro backtrace innermost first], innermost location]
            let sm = self.tcx.sess.source_map();
            let lo = sm.lookup_char_pos(span.lo());
            let name =
                with_no_trimmed_paths!(format!("{}", lo.file.name.prefer_local_unconditionally()));
            let inner = format!("{}:{}:{}", name, lo.line, lo.col.0 + 1);
            jlist(&[js(&self.span_str(span)), jlist(&ms), js(&inner)])
        }
    }

    fn note_enum(&mut self, ty: Ty<'tcx>) {
        if let ty::Adt(adt, _) = ty.kind() {
            if adt.is_enum() {
                let key = self.ty_str(ty);
                if !self.enums.contains_key(&key) {
                    let mut v = vec![];
                    for (vi, d) in adt.discriminants(self.tcx) {
                        v.push((d.val, adt.variant(vi).name.to_string()));
                    }
                    self.enums.insert(key, v);
                }
            }
        }
    }

    fn place(&self, body: &Body<'tcx>, p: &Place<'tcx>) -> String {
        let mut projs = vec![];
        let mut cur = rustc_middle::mir::PlaceTy::from_ty(body.local_decls[p.local].ty);
        for elem in p.projection.iter() {
            let s = match elem {
                ProjectionElem::Deref => js("*"),
                ProjectionElem::Field(f, ty) => {
                    // field name if the base is an ADT
                    let mut fname = String::new();
                    let mut adt_path = String::new();
                    let mut vname = String::new();
                    if let ty::Adt(adt, _) = cur.ty.kind() {
                        let vi = cur.variant_index.unwrap_or(rustc_abi::FIRST_VARIANT);
                        if adt.is_enum() || adt.is_struct() {
                            adt_path = self.path(adt.did());
                            if let Some(v) = adt.variants().get(vi) {
                                vname = v.name.to_string();
                                if let Some(fd) = v.fields.get(f) {
                                    fname = fd.name.to_string();
                                }
                            }
                        }
                    }
                    jlist(&[
                        js("f"),
                        format!("{}", f.as_usize()),
                        js(&self.ty_str(ty)),
                        js(&fname),
                        js(&adt_path),
                        js(&vname),
                    ])
                }
                ProjectionElem::Downcast(name, vi) => {
                    let n = match name {
                        Some(s) => s.to_string(),
                        None => {
                            if let ty::Adt(adt, _) = cur.ty.kind() {
                                adt.variant(vi).name.to_string()
                            } else {
                                String::new()
                            }
                        }
                    };
                    jlist(&[js("d"), js(&n), format!("{}", vi.as_usize())])
                }
                ProjectionElem::Index(l) => jlist(&[js("i"), format!("{}", l.as_usize())]),
                ProjectionElem::ConstantIndex { offset, min_length, from_end } => jlist(&[
                    js("ci"),
                    format!("{}", offset),
                    format!("{}", min_length),
                    format!("{}", from_end),
                ]),
                ProjectionElem::Subslice { from, to, from_end } => jlist(&[
                    js("ss"),
                    format!("{}", from),
                    format!("{}", to),
                    format!("{}", from_end),
                ]),
                ProjectionElem::OpaqueCast(_) => jlist(&[js("oc")]),
                ProjectionElem::UnwrapUnsafeBinder(_) => jlist(&[js("ub")]),
            };
            projs.push(s);
            cur = cur.projection_ty(self.tcx, elem);
        }
        jlist(&[format!("{}", p.local.as_usize()), jlist(&projs)])
    }

    fn place_ty(&self, body: &Body<'tcx>, p: &Place<'tcx>) -> Ty<'tcx> {
        p.ty(&body.local_decls, self.tcx).ty
    }

    fn konst(&self, body_def: DefId, c: &Const<'tcx>) -> String {
        let tcx = self.tcx;
        let ty = c.ty();
        let mut items: Vec<(&str, String)> = vec![("ty", js(&self.ty_str(ty)))];
        if let ty::FnDef(def, args) = ty.kind() {
            items.push(("fn", js(&self.path(*def))));
            items.push(("fn_full", js(&self.path_args(*def, args))));
            items.push(("fn_local", format!("{}", def.is_local())));
            return jobj(&items);
        }
        let env = TypingEnv::post_analysis(tcx, body_def);
        match ty.kind() {
            ty::Bool | ty::Char | ty::Int(_) | ty::Uint(_) => {
                if let Some(si) = c.try_eval_scalar_int(tcx, env) {
                    let size = si.size();
                    let bits = si.to_bits(size);
                    let v = match ty.kind() {
                        ty::Bool => format!("{}", bits != 0),
                        ty::Char => {
                            let ch = char::from_u32(bits as u32).unwrap_or('\u{fffd}');
                            js(&ch.to_string())
                        }
                        ty::Int(_) => {
                            // sign extend
                            let sz = size.bits();
                            let v = if sz == 128 {
                                bits as i128
                            } else {
                                let shift = 128 - sz;
                                ((bits << shift) as i128) >> shift
                            };
                            if v.unsigned_abs() < (1u128 << 53) {
                                format!("{}", v)
                            } else {
                                js(&format!("{}", v))
                            }
                        }
                        _ => jnum_u128(bits),
                    };
                    items.push(("v", v));
                }
            }
            ty::Ref(_, inner, _) if inner.is_str() => {
                if let Const::Val(cv, _) = c {
                    if let Some(bytes) = cv.try_get_slice_bytes_for_diagnostics(tcx) {
                        items.push(("v", js(&String::from_utf8_lossy(bytes))));
                    }
                } else if let Ok(cv) = c.eval(tcx, env, rustc_span::DUMMY_SP) {
                    if let Some(bytes) = cv.try_get_slice_bytes_for_diagnostics(tcx) {
                        items.push(("v", js(&String::from_utf8_lossy(bytes))));
                    }
                }
            }
            ty::Ref(_, inner, _) if matches!(inner.kind(), ty::Array(..) | ty::Slice(..)) => {
                // byte-string like constants (format templates): pretty form
                let pp = with_no_trimmed_paths!(format!("{}", c));
                if pp.len() < 4000 {
                    items.push(("pp", js(&pp)));
                }
            }
            _ => {}
        }
        // a reference to a `static` item (`SYMBOLS.iter()`): name the item
        if let Const::Val(rustc_middle::mir::ConstValue::Scalar(rustc_middle::mir::interpret::Scalar::Ptr(ptr, _)), _) = c {
            if let Some(rustc_middle::mir::interpret::GlobalAlloc::Static(sd)) =
                tcx.try_get_global_alloc(ptr.provenance.alloc_id())
            {
                items.push(("static", js(&self.path(sd))));
            }
        }
        if let Const::Unevaluated(uv, _) = c {
            items.push(("uneval", js(&self.path(uv.def))));
            if let Some(p) = uv.promoted {
                items.push(("promoted", format!("{}", p.as_usize())));
            }
        }
        jobj(&items)
    }

    fn operand(&self, body: &Body<'tcx>, body_def: DefId, op: &Operand<'tcx>) -> String {
        match op {
            Operand::Copy(p) => jlist(&[js("cp"), self.place(body, p)]),
            Operand::Move(p) => jlist(&[js("mv"), self.place(body, p)]),
            Operand::Constant(c) => jlist(&[js("k"), self.konst(body_def, &c.const_)]),
            Operand::RuntimeChecks(rc) => jlist(&[js("rt"), js(&format!("{:?}", rc))]),
        }
    }

    fn operand_ty(&self, body: &Body<'tcx>, op: &Operand<'tcx>) -> Ty<'tcx> {
        op.ty(&body.local_decls, self.tcx)
    }

    fn rvalue(&mut self, body: &Body<'tcx>, body_def: DefId, rv: &Rvalue<'tcx>) -> String {
        match rv {
            Rvalue::Use(op, _) => jlist(&[js("use"), self.operand(body, body_def, op)]),
            Rvalue::Repeat(op, _) => jlist(&[js("repeat"), self.operand(body, body_def, op)]),
            Rvalue::Ref(_, bk, p) => {
                let k = match bk {
                    BorrowKind::Shared => "shared",
                    BorrowKind::Fake(_) => "fake",
                    BorrowKind::Mut { .. } => "mut",
                };
                jlist(&[js("ref"), js(k), self.place(body, p)])
            }
            Rvalue::ThreadLocalRef(d) => jlist(&[js("tls"), js(&self.path(*d))]),
            Rvalue::RawPtr(k, p) => {
                jlist(&[js("addr"), js(&format!("{:?}", k)), self.place(body, p)])
            }
            Rvalue::Cast(kind, op, ty) => {
                let k = match kind {
                    CastKind::PointerCoercion(pc, _) => format!("PointerCoercion({:?})", pc),
                    other => format!("{:?}", other),
                };
                jlist(&[
                    js("cast"),
                    js(&k),
                    self.operand(body, body_def, op),
                    js(&self.ty_str(*ty)),
                    js(&self.ty_str(self.operand_ty(body, op))),
                ])
            }
            Rvalue::BinaryOp(op, ab) => {
                let (a, b) = &**ab;
                jlist(&[
                    js("bin"),
                    js(&format!("{:?}", op)),
                    self.operand(body, body_def, a),
                    self.operand(body, body_def, b),
                    js(&self.ty_str(self.operand_ty(body, a))),
                ])
            }
            Rvalue::UnaryOp(op, a) => jlist(&[
                js("un"),
                js(&format!("{:?}", op)),
                self.operand(body, body_def, a),
                js(&self.ty_str(self.operand_ty(body, a))),
            ]),
            Rvalue::Discriminant(p) => {
                let ty = self.place_ty(body, p);
                self.note_enum(ty);
                jlist(&[js("discr"), self.place(body, p), js(&self.ty_str(ty))])
            }
            Rvalue::Aggregate(kind, ops) => {
                let opsj: Vec<String> =
                    ops.iter().map(|o| self.operand(body, body_def, o)).collect();
                let k = match &**kind {
                    AggregateKind::Array(_) => jobj(&[("k", js("array"))]),
                    AggregateKind::Tuple => jobj(&[("k", js("tuple"))]),
                    AggregateKind::Adt(def, vi, args, _, active) => {
                        let adt = self.tcx.adt_def(*def);
                        let v = adt.variant(*vi);
                        let fields: Vec<String> =
                            v.fields.iter().map(|f| js(f.name.as_str())).collect();
                        let mut items = vec![
                            ("k", js("adt")),
                            ("adt", js(&self.path(*def))),
                            ("adt_full", js(&self.path_args(*def, args))),
                            ("variant", js(v.name.as_str())),
                            ("vi", format!("{}", vi.as_usize())),
                            ("fields", jlist(&fields)),
                            ("is_enum", format!("{}", adt.is_enum())),
                        ];
                        if let Some(a) = active {
                            items.push(("active", format!("{}", a.as_usize())));
                        }
                        jobj(&items)
                    }
                    AggregateKind::Closure(def, _) => {
                        jobj(&[("k", js("closure")), ("def", js(&self.path(*def)))])
                    }
                    AggregateKind::Coroutine(def, _) => {
                        jobj(&[("k", js("coroutine")), ("def", js(&self.path(*def)))])
                    }
                    AggregateKind::CoroutineClosure(def, _) => {
                        jobj(&[("k", js("coroutine_closure")), ("def", js(&self.path(*def)))])
                    }
                    AggregateKind::RawPtr(..) => jobj(&[("k", js("rawptr"))]),
                };
                jlist(&[js("agg"), k, jlist(&opsj)])
            }
            Rvalue::CopyForDeref(p) => jlist(&[js("cfd"), self.place(body, p)]),
            Rvalue::WrapUnsafeBinder(op, _) => {
                jlist(&[js("wub"), self.operand(body, body_def, op)])
            }
        }
    }

    fn callee(&self, body: &Body<'tcx>, body_def: DefId, func: &Operand<'tcx>) -> String {
        let tcx = self.tcx;
        if let Some((def, args)) = func.const_fn_def() {
            let mut items: Vec<(&str, String)> = vec![
                ("def", js(&self.path(def))),
                ("full", js(&self.path_args(def, args))),
            ];
            if let Some(tr) = tcx.trait_of_assoc(def) {
                items.push(("trait", js(&self.path(tr))));
            }
            let env = TypingEnv::post_analysis(tcx, body_def);
            let mut resolved = false;
            if let Ok(Some(inst)) = Instance::try_resolve(tcx, env, def, args) {
                let rdef = inst.def_id();
                let kind = match inst.def {
                    InstanceKind::Item(_) => "item",
                    InstanceKind::Intrinsic(_) => "intrinsic",
                    InstanceKind::VTableShim(_) => "vtable_shim",
                    InstanceKind::ReifyShim(..) => "reify_shim",
                    InstanceKind::FnPtrShim(..) => "fnptr_shim",
                    InstanceKind::Virtual(..) => "virtual",
                    InstanceKind::ClosureOnceShim { .. } => "closure_once_shim",
                    InstanceKind::ConstructCoroutineInClosureShim { .. } => "coroutine_shim",
                    InstanceKind::ThreadLocalShim(_) => "tls_shim",
                    InstanceKind::DropGlue(..) => "drop_glue",
                    InstanceKind::CloneShim(..) => "clone_shim",
                    InstanceKind::FnPtrAddrShim(..) => "fnptr_addr_shim",
                    _ => "other",
                };
                items.push(("res", js(&self.path(rdef))));
                items.push(("res_full", js(&self.path_args(rdef, inst.args))));
                items.push(("res_kind", js(kind)));
                items.push(("res_local", format!("{}", rdef.is_local())));
                // Self type for shims (what is cloned / dropped / called)
                match inst.def {
                    InstanceKind::CloneShim(_, ty) | InstanceKind::FnPtrShim(_, ty) => {
                        items.push(("shim_ty", js(&self.ty_str(ty))));
                    }
                    InstanceKind::DropGlue(_, Some(ty)) => {
                        items.push(("shim_ty", js(&self.ty_str(ty))));
                    }
                    _ => {}
                }
                resolved = true;
            }
            items.push(("resolved", format!("{}", resolved)));
            jobj(&items)
        } else {
            let ty = self.operand_ty(body, func);
            jobj(&[("ptr", self.operand(body, body_def, func)), ("ty", js(&self.ty_str(ty)))])
        }
    }

    fn body(&mut self, def: LocalDefId, body: &Body<'tcx>, full: bool) -> String {
        let tcx = self.tcx;
        let did = def.to_def_id();
        let path = self.path(did);
        let module = self.path(tcx.parent_module_from_def_id(def).to_def_id());
        let kind = tcx.def_kind(did);
        let mut items: Vec<(&str, String)> = vec![
            ("path", js(&path)),
            ("module", js(&module)),
            ("kind", js(&format!("{:?}", kind))),
            ("span", self.span_json(body.span)),
            ("from_expansion", format!("{}", body.span.from_expansion())),
            ("arg_count", format!("{}", body.arg_count)),
            ("full", format!("{}", full)),
        ];
        if matches!(kind, DefKind::Closure) {
            items.push(("parent", js(&self.path(tcx.typeck_root_def_id(did)))));
        }
        // impl / trait info
        if matches!(kind, DefKind::AssocFn) {
            let parent = tcx.parent(did);
            if let DefKind::Impl { of_trait } = tcx.def_kind(parent) {
                let self_ty = tcx.type_of(parent).instantiate_identity().skip_norm_wip();
                items.push(("impl_self", js(&self.ty_str(self_ty))));
                if of_trait {
                    let tr = tcx.impl_trait_ref(parent).instantiate_identity().skip_norm_wip();
                    items.push(("impl_trait", js(&self.path(tr.def_id))));
                }
            }
        }
        // locals
        let locals: Vec<String> =
            body.local_decls.iter().map(|d| js(&self.ty_str(d.ty))).collect();
        if full {
            items.push(("locals", jlist(&locals)));
        }
        let mut dbg = vec![];
        for v in &body.var_debug_info {
            if let VarDebugInfoContents::Place(p) = &v.value {
                dbg.push(jlist(&[js(v.name.as_str()), self.place(body, p)]));
            }
        }
        items.push(("debug", jlist(&dbg)));
        // constants of promoted bodies (e.g. `&"_"`), by promoted index
        if full {
            let mut proms = vec![];
            for pb in tcx.promoted_mir(did).iter() {
                let mut ks = vec![];
                for data in pb.basic_blocks.iter() {
                    for st in &data.statements {
                        if let StatementKind::Assign(b) = &st.kind {
                            let (_, rv) = &**b;
                            let ops: Vec<&Operand<'tcx>> = match rv {
                                Rvalue::Use(o, _) => vec![o],
                                Rvalue::Aggregate(_, os) => os.iter().collect(),
                                Rvalue::Cast(_, o, _) => vec![o],
                                _ => vec![],
                            };
                            for o in ops {
                                if let Operand::Constant(c) = o {
                                    ks.push(self.konst(did, &c.const_));
                                }
                            }
                        }
                    }
                }
                proms.push(jlist(&ks));
            }
            items.push(("promoted", jlist(&proms)));
            // statics: the promoted bodies hold the table itself (`&[(..), ..]`),
            // so their assignments are dumped in full
            if matches!(kind, DefKind::Static { .. }) {
                let mut pbodies = vec![];
                for pb in tcx.promoted_mir(did).iter() {
                    let plocals: Vec<String> =
                        pb.local_decls.iter().map(|d| js(&self.ty_str(d.ty))).collect();
                    let mut pst = vec![];
                    for data in pb.basic_blocks.iter() {
                        for st in &data.statements {
                            if let StatementKind::Assign(b) = &st.kind {
                                let (p, rv) = &**b;
                                pst.push(jlist(&[
                                    js("="),
                                    self.place(pb, p),
                                    self.rvalue(pb, did, rv),
                                    self.span_json(st.source_info.span),
                                ]));
                            }
                        }
                    }
                    pbodies.push(jobj(&[("locals", jlist(&plocals)), ("stmts", jlist(&pst))]));
                }
                items.push(("promoted_bodies", jlist(&pbodies)));
            }
        }

        if !full {
            // summary only: the set of resolved callees, assert kinds with
            // operand types, and function items used as values
            let mut calls = std::collections::BTreeSet::new();
            let mut asserts = std::collections::BTreeSet::new();
            for (_bb, data) in body.basic_blocks.iter_enumerated() {
                if data.is_cleanup {
                    continue;
                }
                match &data.terminator().kind {
                    TerminatorKind::Call { func, .. } | TerminatorKind::TailCall { func, .. } => {
                        calls.insert(self.callee(body, did, func));
                    }
                    TerminatorKind::Assert { msg, .. } => {
                        let (kind, ops): (String, Vec<&Operand<'tcx>>) = match &**msg {
                            AssertKind::BoundsCheck { len, index } => {
                                ("BoundsCheck".into(), vec![len, index])
                            }
                            AssertKind::Overflow(op, a, b) => {
                                (format!("Overflow({:?})", op), vec![a, b])
                            }
                            AssertKind::OverflowNeg(a) => ("OverflowNeg".into(), vec![a]),
                            AssertKind::DivisionByZero(a) => ("DivisionByZero".into(), vec![a]),
                            AssertKind::RemainderByZero(a) => ("RemainderByZero".into(), vec![a]),
                            _ => ("Other".into(), vec![]),
                        };
                        let ot: Vec<String> = ops
                            .iter()
                            .map(|o| js(&self.ty_str(self.operand_ty(body, o))))
                            .collect();
                        asserts.insert(jlist(&[js(&kind), jlist(&ot)]));
                    }
                    _ => {}
                }
            }
            let calls: Vec<String> = calls.into_iter().collect();
            let asserts: Vec<String> = asserts.into_iter().collect();
            items.push(("calls", jlist(&calls)));
            items.push(("asserts", jlist(&asserts)));
            items.push(("n_blocks", format!("{}", body.basic_blocks.len())));
            return jobj(&items);
        }
        let mut blocks = vec![];
        for (_bb, data) in body.basic_blocks.iter_enumerated() {
            let mut stmts = vec![];
            if full {
                for st in &data.statements {
                    match &st.kind {
                        StatementKind::Assign(b) => {
                            let (p, rv) = &**b;
                            stmts.push(jlist(&[
                                js("="),
                                self.place(body, p),
                                self.rvalue(body, did, rv),
                                self.span_json(st.source_info.span),
                            ]));
                        }
                        StatementKind::SetDiscriminant { place, variant_index } => {
                            stmts.push(jlist(&[
                                js("setdiscr"),
                                self.place(body, place),
                                format!("{}", variant_index.as_usize()),
                            ]));
                        }
                        StatementKind::StorageLive(l) => {
                            stmts.push(jlist(&[js("live"), format!("{}", l.as_usize())]));
                        }
                        StatementKind::StorageDead(l) => {
                            stmts.push(jlist(&[js("dead"), format!("{}", l.as_usize())]));
                        }
                        StatementKind::Intrinsic(_) => {
                            stmts.push(jlist(&[js("intrinsic")]));
                        }
                        _ => {}
                    }
                }
            }
            let term = data.terminator();
            let tspan = term.source_info.span;
            let t = match &term.kind {
                TerminatorKind::Goto { target } => {
                    jobj(&[("k", js("goto")), ("t", bbn(*target))])
                }
                TerminatorKind::SwitchInt { discr, targets } => {
                    let ty = self.operand_ty(body, discr);
                    let mut ts = vec![];
                    for (v, bb) in targets.iter() {
                        ts.push(jlist(&[jnum_u128(v), bbn(bb)]));
                    }
                    jobj(&[
                        ("k", js("switch")),
                        ("on", self.operand(body, did, discr)),
                        ("ty", js(&self.ty_str(ty))),
                        ("targets", jlist(&ts)),
                        ("else", bbn(targets.otherwise())),
                        ("span", self.span_json(tspan)),
                    ])
                }
                TerminatorKind::UnwindResume => jobj(&[("k", js("resume"))]),
                TerminatorKind::UnwindTerminate(_) => jobj(&[("k", js("terminate"))]),
                TerminatorKind::Return => jobj(&[("k", js("return"))]),
                TerminatorKind::Unreachable => jobj(&[("k", js("unreachable"))]),
                TerminatorKind::Drop { place, target, unwind, .. } => jobj(&[
                    ("k", js("drop")),
                    ("place", self.place(body, place)),
                    ("ty", js(&self.ty_str(self.place_ty(body, place)))),
                    ("t", bbn(*target)),
                    ("cleanup", unwind_json(unwind)),
                    ("span", self.span_json(tspan)),
                ]),
                TerminatorKind::Call { func, args, destination, target, unwind, .. } => {
                    let a: Vec<String> =
                        args.iter().map(|o| self.operand(body, did, &o.node)).collect();
                    let at: Vec<String> = args
                        .iter()
                        .map(|o| js(&self.ty_str(self.operand_ty(body, &o.node))))
                        .collect();
                    jobj(&[
                        ("k", js("call")),
                        ("callee", self.callee(body, did, func)),
                        ("args", jlist(&a)),
                        ("argtys", jlist(&at)),
                        ("dst", self.place(body, destination)),
                        ("dstty", js(&self.ty_str(self.place_ty(body, destination)))),
                        ("t", match target {
                            Some(t) => bbn(*t),
                            None => "null".to_string(),
                        }),
                        ("cleanup", unwind_json(unwind)),
                        ("span", self.span_json(tspan)),
                    ])
                }
                TerminatorKind::TailCall { func, args, .. } => {
                    let a: Vec<String> =
                        args.iter().map(|o| self.operand(body, did, &o.node)).collect();
                    jobj(&[
                        ("k", js("tailcall")),
                        ("callee", self.callee(body, did, func)),
                        ("args", jlist(&a)),
                        ("span", self.span_json(tspan)),
                    ])
                }
                TerminatorKind::Assert { cond, expected, msg, target, unwind } => {
                    let (kind, ops): (String, Vec<&Operand<'tcx>>) = match &**msg {
                        AssertKind::BoundsCheck { len, index } => {
                            ("BoundsCheck".into(), vec![len, index])
                        }
                        AssertKind::Overflow(op, a, b) => {
                            (format!("Overflow({:?})", op), vec![a, b])
                        }
                        AssertKind::OverflowNeg(a) => ("OverflowNeg".into(), vec![a]),
                        AssertKind::DivisionByZero(a) => ("DivisionByZero".into(), vec![a]),
                        AssertKind::RemainderByZero(a) => ("RemainderByZero".into(), vec![a]),
                        AssertKind::MisalignedPointerDereference { required, found } => {
                            ("MisalignedPointerDereference".into(), vec![required, found])
                        }
                        AssertKind::NullPointerDereference => {
                            ("NullPointerDereference".into(), vec![])
                        }
                        AssertKind::InvalidEnumConstruction(a) => {
                            ("InvalidEnumConstruction".into(), vec![a])
                        }
                        _ => ("Other".into(), vec![]),
                    };
                    let oj: Vec<String> =
                        ops.iter().map(|o| self.operand(body, did, o)).collect();
                    let ot: Vec<String> =
                        ops.iter().map(|o| js(&self.ty_str(self.operand_ty(body, o)))).collect();
                    jobj(&[
                        ("k", js("assert")),
                        ("cond", self.operand(body, did, cond)),
                        ("expected", format!("{}", expected)),
                        ("kind", js(&kind)),
                        ("ops", jlist(&oj)),
                        ("optys", jlist(&ot)),
                        ("t", bbn(*target)),
                        ("cleanup", unwind_json(unwind)),
                        ("span", self.span_json(tspan)),
                    ])
                }
                TerminatorKind::FalseEdge { real_target, .. } => {
                    jobj(&[("k", js("goto")), ("t", bbn(*real_target))])
                }
                TerminatorKind::FalseUnwind { real_target, .. } => {
                    jobj(&[("k", js("goto")), ("t", bbn(*real_target))])
                }
                other => jobj(&[("k", js("other")), ("dbg", js(&format!("{:?}", other)))]),
            };
            blocks.push(jobj(&[
                ("s", jlist(&stmts)),
                ("t", t),
                ("cleanup", format!("{}", data.is_cleanup)),
            ]));
        }
        items.push(("blocks", jlist(&blocks)));
        jobj(&items)
    }

    fn adts(&self) -> String {
        let tcx = self.tcx;
        let mut out = vec![];
        for ld in tcx.hir_crate_items(()).definitions() {
            let did = ld.to_def_id();
            let kind = tcx.def_kind(did);
            match kind {
                DefKind::Enum | DefKind::Struct => {
                    let adt = tcx.adt_def(did);
                    let mut vars = vec![];
                    for v in adt.variants().iter() {
                        let mut fields = vec![];
                        for f in v.fields.iter() {
                            let fty = tcx.type_of(f.did).instantiate_identity().skip_norm_wip();
                            fields.push(jobj(&[
                                ("name", js(f.name.as_str())),
                                ("ty", js(&self.ty_str(fty))),
                            ]));
                        }
                        // attributes on the variant (source snippets)
                        let mut attrs = vec![];
                        if let Some(vl) = v.def_id.as_local() {
                            let hir_id = tcx.local_def_id_to_hir_id(vl);
                            for a in tcx.hir_attrs(hir_id) {
                                let sp = a.span();
                                match tcx.sess.source_map().span_to_snippet(sp) {
                                    Ok(snip) => attrs.push(js(&snip)),
                                    Err(_) => attrs.push(js(&format!("{:?}", a))),
                                }
                            }
                        }
                        vars.push(jobj(&[
                            ("name", js(v.name.as_str())),
                            ("fields", jlist(&fields)),
                            ("attrs", jlist(&attrs)),
                        ]));
                    }
                    out.push(jobj(&[
                        ("path", js(&self.path(did))),
                        ("kind", js(&format!("{:?}", kind))),
                        ("module", js(&self.path(tcx.parent_module_from_def_id(ld).to_def_id()))),
                        ("variants", jlist(&vars)),
                    ]));
                }
                DefKind::TyAlias => {
                    let ty = tcx.type_of(did).instantiate_identity().skip_norm_wip();
                    out.push(jobj(&[
                        ("path", js(&self.path(did))),
                        ("kind", js("TyAlias")),
                        ("ty", js(&self.ty_str(ty))),
                    ]));
                }
                _ => {}
            }
        }
        jlist(&out)
    }
}

fn bbn(b: BasicBlock) -> String {
    format!("{}", b.as_usize())
}

fn unwind_json(u: &UnwindAction) -> String {
    match u {
        UnwindAction::Cleanup(b) => bbn(*b),
        _ => "null".to_string(),
    }
}

struct Cb {
    out_dir: String,
    full_filter: String,
}

impl rustc_driver::Callbacks for Cb {
    fn after_analysis<'tcx>(
        &mut self,
        _compiler: &rustc_interface::interface::Compiler,
        tcx: TyCtxt<'tcx>,
    ) -> Compilation {
        let crate_name = tcx.crate_name(rustc_hir::def_id::LOCAL_CRATE).to_string();
        let mut cx = Cx { tcx, enums: BTreeMap::new() };
        let mut fns = vec![];
        let mut n_bodies = 0usize;
        let mut n_full = 0usize;
        let mut skipped = vec![];
        for &ld in tcx.mir_keys(()).iter() {
            let did = ld.to_def_id();
            let kind = tcx.def_kind(did);
            let is_fn = matches!(kind, DefKind::Fn | DefKind::AssocFn | DefKind::Closure);
            if matches!(kind, DefKind::Static { .. }) {
                // initialiser of a `static` table (e.g. the lexer's spelling
                // tables): dumped like a function body, kind "Static{..}"
                let module = cx.path(tcx.parent_module_from_def_id(ld).to_def_id());
                let generated = module == "parser" || module.starts_with("parser::");
                if !generated {
                    let body = tcx.mir_for_ctfe(did);
                    n_bodies += 1;
                    n_full += 1;
                    fns.push(cx.body(ld, body, true));
                    continue;
                }
            }
            if !is_fn {
                skipped.push(js(&format!("{:?} {}", kind, cx.path(did))));
                continue;
            }
            // constructors of tuple structs / variants have MIR shims but are
            // DefKind::Ctor (not is_fn) so they are skipped above.
            let body = tcx.optimized_mir(did);
            let path = cx.path(did);
            // "full" bodies: everything outside the generated parser module,
            // plus the parser's semantic actions (`__actionN`).
            let full = if self.full_filter == "all" {
                true
            } else {
                {
                    let module = cx.path(tcx.parent_module_from_def_id(ld).to_def_id());
                    let generated = module == "parser" || module.starts_with("parser::");
                    !(generated && !path.contains("::__action"))
                }
            };
            n_bodies += 1;
            if full {
                n_full += 1;
            }
            fns.push(cx.body(ld, body, full));
        }
        let adts = cx.adts();
        let mut enums = vec![];
        for (k, v) in &cx.enums {
            let vs: Vec<String> =
                v.iter().map(|(d, n)| jlist(&[jnum_u128(*d), js(n)])).collect();
            enums.push(format!("{}:{}", js(k), jlist(&vs)));
        }
        let doc = format!(
            "{{\"crate\":{},\"rustc\":{},\"n_bodies\":{},\"n_full\":{},\"skipped\":{},\"adts\":{},\"enums\":{{{}}},\"fns\":{}}}\n",
            js(&crate_name),
            js(&rustc_interface::util::rustc_version_str().unwrap_or("unknown").to_string()),
            n_bodies,
            n_full,
            jlist(&skipped),
            adts,
            enums.join(","),
            jlist(&fns),
        );
        let path = format!("{}/{}.facts.json", self.out_dir, crate_name);
        // one write per process
        std::fs::write(&path, doc).expect("seedfacts: cannot write fact file");
        Compilation::Continue
    }
}

struct NoCb;
impl rustc_driver::Callbacks for NoCb {}

fn main() {
    let mut args: Vec<String> = std::env::args().collect();
    // RUSTC_WORKSPACE_WRAPPER passes the real rustc path as argv[1]
    if args.len() > 1 && (args[1].ends_with("rustc") || args[1].contains("/rustc")) {
        args.remove(1);
    }
    let targets = std::env::var("SEEDFACTS_CRATES").unwrap_or_else(|_| "seed".to_string());
    let targets: Vec<&str> = targets.split(',').collect();
    let mut crate_name = None;
    let mut i = 0;
    while i < args.len() {
        if args[i] == "--crate-name" && i + 1 < args.len() {
            crate_name = Some(args[i + 1].clone());
        }
        i += 1;
    }
    let is_target = match &crate_name {
        Some(n) => targets.contains(&n.as_str()),
        None => false,
    };
    if is_target {
        let out_dir = std::env::var("SEEDFACTS_OUT").expect("SEEDFACTS_OUT not set");
        let full_filter = std::env::var("SEEDFACTS_FULL").unwrap_or_default();
        let mut cb = Cb { out_dir, full_filter };
        rustc_driver::run_compiler(&args, &mut cb);
    } else {
        let mut cb = NoCb;
        rustc_driver::run_compiler(&args, &mut cb);
    }
}
