"""E2 core: data model and generic analyses over the seedfacts JSON.

Everything here is plain static analysis over MIR facts: CFGs, dominators,
natural loops, single-definition resolution of access paths, a relational
variant-set dataflow over discriminant switches (A4), call graph and effect
summaries (A1).  Nothing executes or symbolically executes the interpreter.
"""
import re
from collections import defaultdict, deque


# --------------------------------------------------------------------------
# helpers on the JSON encodings

def is_place_operand(op):
    return op[0] in ("cp", "mv")


def op_place(op):
    return op[1] if op[0] in ("cp", "mv") else None


def op_const(op):
    return op[1] if op[0] == "k" else None


def const_val(op):
    c = op_const(op)
    if c is None:
        return None
    return c.get("v")


def span_loc(sp):
    if isinstance(sp, list):
        return sp[0]
    return sp


def span_macros(sp):
    if isinstance(sp, list):
        return sp[1]
    return []


def span_inner(sp):
    if isinstance(sp, list):
        return sp[2]
    return sp


class Call:
    __slots__ = ("fn", "bb", "t", "callee", "args", "argtys", "dst", "dstty",
                 "target", "span")

    def __init__(self, fn, bb, t):
        self.fn = fn
        self.bb = bb
        self.t = t
        self.callee = t["callee"]
        self.args = t["args"]
        self.argtys = t.get("argtys", [])
        self.dst = t.get("dst")
        self.dstty = t.get("dstty")
        self.target = t.get("t")
        self.span = t.get("span")

    @property
    def is_ptr(self):
        return "ptr" in self.callee

    @property
    def res(self):
        """Resolved callee def path (no generic args); falls back to the
        unresolved path."""
        c = self.callee
        return c.get("res") or c.get("def")

    @property
    def res_full(self):
        c = self.callee
        return c.get("res_full") or c.get("full")

    @property
    def declared(self):
        return self.callee.get("def")

    @property
    def declared_full(self):
        return self.callee.get("full")

    @property
    def trait(self):
        return self.callee.get("trait")

    @property
    def is_local(self):
        return bool(self.callee.get("res_local"))

    @property
    def loc(self):
        return span_loc(self.span)

    @property
    def macros(self):
        return span_macros(self.span)

    def __repr__(self):
        return "<call %s in %s bb%d @%s>" % (self.res, self.fn.path, self.bb,
                                             self.loc)


class Fn:
    def __init__(self, j, prog):
        self.j = j
        self.prog = prog
        self.path = j["path"]
        self.module = j["module"]
        self.kind = j["kind"]
        self.full = j["full"]
        self.arg_count = j["arg_count"]
        self.parent = j.get("parent")
        self.locals = j.get("locals", [])
        self.blocks = j.get("blocks", [])
        self.span = j.get("span")
        self.from_expansion = j.get("from_expansion", False)
        self.impl_trait = j.get("impl_trait")
        self.impl_self = j.get("impl_self")
        self._succ = None
        self._pred = None
        self._idom = None
        self._defs = None
        self._calls = None
        self._reach = None
        self._rpo = None

    @property
    def generated(self):
        return self.module == "parser" or self.module.startswith("parser::")

    @property
    def is_closure(self):
        return self.kind == "Closure"

    def root_fn(self):
        """The enclosing non-closure function."""
        if self.parent and self.parent in self.prog.fns:
            return self.prog.fns[self.parent]
        return self

    def debug_name(self, local):
        for name, pl in self.j.get("debug", []):
            if pl[0] == local and not pl[1]:
                return name
        return None

    # ---- CFG ------------------------------------------------------------
    def term(self, bb):
        return self.blocks[bb]["t"]

    def stmts(self, bb):
        return self.blocks[bb]["s"]

    def is_cleanup(self, bb):
        return self.blocks[bb]["cleanup"]

    def succs(self, bb):
        """Normal (non-unwind) successors."""
        if self._succ is None:
            self._succ = []
            for b in self.blocks:
                t = b["t"]
                k = t["k"]
                out = []
                if k == "goto":
                    out = [t["t"]]
                elif k == "switch":
                    out = [x[1] for x in t["targets"]] + [t["else"]]
                elif k in ("call", "drop", "assert"):
                    if t.get("t") is not None:
                        out = [t["t"]]
                seen = []
                for o in out:
                    if o not in seen:
                        seen.append(o)
                self._succ.append(seen)
        return self._succ[bb]

    def preds(self, bb):
        if self._pred is None:
            self._pred = [[] for _ in self.blocks]
            for b in range(len(self.blocks)):
                if self.is_cleanup(b):
                    continue
                for s in self.succs(b):
                    self._pred[s].append(b)
        return self._pred[bb]

    def reachable(self):
        """Blocks reachable from entry along normal edges."""
        if self._reach is None:
            seen = set()
            if self.blocks:
                st = [0]
                while st:
                    b = st.pop()
                    if b in seen:
                        continue
                    seen.add(b)
                    st.extend(self.succs(b))
            self._reach = seen
        return self._reach

    def rpo(self):
        if self._rpo is None:
            order = []
            seen = set()

            def dfs(b):
                stack = [(b, iter(self.succs(b)))]
                seen.add(b)
                while stack:
                    node, it = stack[-1]
                    adv = False
                    for s in it:
                        if s not in seen:
                            seen.add(s)
                            stack.append((s, iter(self.succs(s))))
                            adv = True
                            break
                    if not adv:
                        order.append(node)
                        stack.pop()
            if self.blocks:
                dfs(0)
            order.reverse()
            self._rpo = order
        return self._rpo

    def idoms(self):
        if self._idom is None:
            rpo = self.rpo()
            idx = {b: i for i, b in enumerate(rpo)}
            idom = {0: 0} if rpo else {}

            def intersect(a, b):
                while a != b:
                    while idx[a] > idx[b]:
                        a = idom[a]
                    while idx[b] > idx[a]:
                        b = idom[b]
                return a
            changed = True
            while changed:
                changed = False
                for b in rpo[1:]:
                    ps = [p for p in self.preds(b) if p in idom]
                    if not ps:
                        continue
                    new = ps[0]
                    for p in ps[1:]:
                        new = intersect(new, p)
                    if idom.get(b) != new:
                        idom[b] = new
                        changed = True
            self._idom = idom
        return self._idom

    def dominates(self, a, b):
        """Block a dominates block b (normal edges)."""
        idom = self.idoms()
        if b not in idom or a not in idom:
            return False
        while True:
            if a == b:
                return True
            if b == 0:
                return False
            b = idom[b]

    def back_edges(self):
        out = []
        for b in self.reachable():
            for s in self.succs(b):
                if self.dominates(s, b):
                    out.append((b, s))
        return out

    def natural_loops(self):
        """{header: set(blocks)}"""
        loops = defaultdict(set)
        for (t, h) in self.back_edges():
            body = {h, t}
            st = [t]
            while st:
                x = st.pop()
                if x == h:
                    continue
                for p in self.preds(x):
                    if p not in body:
                        body.add(p)
                        st.append(p)
            loops[h] |= body
        return dict(loops)

    def in_any_loop(self, bb):
        for h, body in self.natural_loops().items():
            if bb in body:
                return True
        return False

    def reach_from(self, start, avoid=()):
        """Blocks reachable from block `start` (inclusive) along normal edges
        without entering blocks in `avoid`."""
        seen = set()
        st = [start]
        avoid = set(avoid)
        while st:
            b = st.pop()
            if b in seen or b in avoid:
                continue
            seen.add(b)
            st.extend(self.succs(b))
        return seen

    def return_locals(self):
        """Locals whose value is (moved into) the return place: {0} plus, in an
        inlined view, the return places of inlined callees that feed it."""
        if getattr(self, "_retlocals", None) is None:
            out = {0}
            changed = True
            while changed:
                changed = False
                for b in self.blocks:
                    for s in b["s"]:
                        if s[0] == "=" and not s[1][1] and s[1][0] in out and s[2][0] == "use" \
                                and is_place_operand(s[2][1]):
                            src = op_place(s[2][1])
                            if not src[1] and src[0] not in out:
                                out.add(src[0])
                                changed = True
            self._retlocals = out
        return self._retlocals

    # ---- definitions ----------------------------------------------------
    def defs(self):
        """local -> list of (bb, idx, kind, payload) for assignments whose
        destination is the bare local.  kind: 'rv' (payload rvalue) or 'call'
        (payload Call).  idx is the statement index or -1 for terminators."""
        if self._defs is None:
            d = defaultdict(list)
            partial = defaultdict(list)
            for bb, b in enumerate(self.blocks):
                if b["cleanup"]:
                    continue
                for i, s in enumerate(b["s"]):
                    if s[0] == "=":
                        pl = s[1]
                        if not pl[1]:
                            d[pl[0]].append((bb, i, "rv", s[2]))
                        else:
                            partial[pl[0]].append((bb, i, "rv", s[2]))
                    elif s[0] == "setdiscr":
                        partial[s[1][0]].append((bb, i, "setdiscr", s[2]))
                t = b["t"]
                if t["k"] == "call":
                    pl = t["dst"]
                    if not pl[1]:
                        d[pl[0]].append((bb, -1, "call", Call(self, bb, t)))
                    else:
                        partial[pl[0]].append((bb, -1, "call", Call(self, bb, t)))
            self._defs = (d, partial)
        return self._defs[0]

    def partial_defs(self):
        self.defs()
        return self._defs[1]

    def single_def(self, local):
        if 1 <= local <= self.arg_count:
            return None
        ds = self.defs().get(local, [])
        if len(ds) == 1 and not self.partial_defs().get(local):
            return ds[0]
        return None

    def calls(self):
        if self._calls is None:
            out = []
            for bb, b in enumerate(self.blocks):
                if b["cleanup"]:
                    continue
                t = b["t"]
                if t["k"] in ("call", "tailcall"):
                    out.append(Call(self, bb, t))
            self._calls = out
        return self._calls

    def call_at(self, bb):
        t = self.blocks[bb]["t"]
        if t["k"] == "call":
            return Call(self, bb, t)
        return None

    def assigns(self):
        """Yield (bb, idx, place, rvalue, span) for all normal-block assigns."""
        for bb, b in enumerate(self.blocks):
            if b["cleanup"]:
                continue
            for i, s in enumerate(b["s"]):
                if s[0] == "=":
                    yield bb, i, s[1], s[2], s[3]

    def aggregates(self, adt=None, variant=None):
        """Yield (bb, idx, dstplace, kinddict, operands, span).  Besides the
        aggregates written in this function, a call of a *constructor helper*
        (`Error::undefined(name)`: a straight-line function whose result is
        one aggregate of its own parameters) counts as that aggregate, built
        at the call site from the arguments (idx = -1)."""
        for bb, i, pl, rv, sp in self.assigns():
            if rv[0] == "agg" and rv[1].get("k") == "adt":
                k = rv[1]
                if adt is not None and k["adt"] != adt:
                    continue
                if variant is not None and k["variant"] != variant:
                    continue
                yield bb, i, pl, k, rv[2], sp
        if getattr(self, "_is_ctor_probe", False):
            return
        for c in self.calls():
            if c.is_ptr:
                continue
            ch = self.prog.ctor_helper(c.res)
            if ch is None:
                continue
            k, argmap = ch
            if adt is not None and k["adt"] != adt:
                continue
            if variant is not None and k["variant"] != variant:
                continue
            ops_ = []
            for m in argmap:
                if m is not None and m - 1 < len(c.args):
                    ops_.append(c.args[m - 1])
                else:
                    ops_.append(["k", {"ty": "?"}])
            yield c.bb, -1, (c.dst if c.dst is not None else [0, []]), k, ops_, c.span

    # ---- canonical access paths ----------------------------------------
    def canon(self, place, see_through=None, _depth=0):
        cp = self._canon_raw(place, see_through, _depth)
        # a path that ends up rooted at a multi-definition local may still be
        # resolvable through that local's per-variant aggregates
        for _ in range(3):
            if cp and cp[0][0] == "local" and len(cp) >= 3 and _depth < 30:
                nxt = self._canon_local(cp[0][1], list(cp[1:]), see_through, _depth + 1)
                if nxt == cp:
                    break
                cp = nxt
            else:
                break
        # in a view: `(closure value).k` / `(tuple value).k` where the
        # projection was appended after the aggregate had been resolved
        # (a capture read through the inlined closure's environment)
        for _ in range(4):
            if cp and cp[0][0] == "agg" and len(cp) >= 2 and cp[1] != "*" and cp[1] != "&" \
                    and cp[1][0] == "f" and _depth < 30 and getattr(self, "is_view", False):
                st = self.stmts(cp[0][1])[cp[0][2]]
                kd, aops = st[2][1], st[2][2]
                i = cp[1][1]
                if kd.get("k") in ("closure", "tuple") and i < len(aops) and is_place_operand(aops[i]):
                    inner = self.canon(op_place(aops[i]), see_through, _depth + 1)
                    cp = self._append(inner, list(cp[2:]))
                    continue
                if kd.get("k") in ("closure", "tuple") and i < len(aops) and op_const(aops[i]) is not None:
                    cp = (("const", repr(self.const_value(op_const(aops[i])))),) + tuple(cp[2:])
                    break
            break
        return cp

    def _canon_raw(self, place, see_through=None, _depth=0):
        """Canonical access path of a place: (root, proj, proj, ...).
        root is ('arg', n) | ('local', n) | ('call', bb) | ('const', v) |
        ('agg', bb, idx).  References and dereferences cancel; copies, moves
        and tuple construction/projection are seen through when the local has
        a single static definition.  `see_through` is an optional set of
        resolved callee paths whose result is treated as their first
        argument (e.g. Deref::deref)."""
        local, projs = place
        projs = [self._cproj(p) for p in projs]
        return self._canon_local(local, projs, see_through, _depth)

    @staticmethod
    def _cproj(p):
        if p == "*":
            return "*"
        if p[0] == "f":
            return ("f", p[1])
        if p[0] == "d":
            return ("d", p[1])
        if p[0] == "i":
            return ("i",)
        if p[0] == "ci":
            return ("ci", p[1], p[3])
        if p[0] == "ss":
            return ("ss",)
        return (p[0],)

    def _canon_local(self, local, projs, see, depth):
        if depth > 40:
            return (("local", local),) + tuple(projs)
        if 1 <= local <= self.arg_count:
            return (("arg", local),) + tuple(projs)
        sd = self.single_def(local)
        if sd is None:
            # `(x as V).i` of a local assigned one aggregate per variant
            # (`if c { Some(a) } else { None }`): the payload is the operand
            # of the only definition that builds variant V
            if len(projs) >= 2 and projs[0] != "*" and projs[0][0] == "d" \
                    and projs[1] != "*" and projs[1][0] == "f":
                ds = self.defs().get(local, [])
                if ds and all(k == "rv" and p[0] == "agg" for (_, _, k, p) in ds) \
                        and not self.partial_defs().get(local):
                    hits = [p for (_, _, k, p) in ds if p[1].get("variant") == projs[0][1]]
                    i = projs[1][1]
                    if len(hits) == 1 and i < len(hits[0][2]) and is_place_operand(hits[0][2][i]):
                        inner = self.canon(op_place(hits[0][2][i]), see, depth + 1)
                        return self._append(inner, projs[2:])
            return (("local", local),) + tuple(projs)
        bb, idx, kind, payload = sd
        if kind == "call":
            c = payload
            if see and c.res in see and c.args and is_place_operand(c.args[0]):
                inner = self.canon(op_place(c.args[0]), see, depth + 1)
                return self._append(inner, projs)
            return (("call", bb),) + tuple(projs)
        rv = payload
        k = rv[0]
        if k in ("use",):
            op = rv[1]
            if is_place_operand(op):
                inner = self.canon(op_place(op), see, depth + 1)
                return self._append(inner, projs)
            c = op_const(op)
            if c is not None:
                return (("const", repr(self.const_value(c))),) + tuple(projs)
        elif k == "cfd":
            inner = self.canon(rv[1], see, depth + 1)
            return self._append(inner, projs)
        elif k == "ref":
            inner = self.canon(rv[2], see, depth + 1)
            return self._append(inner + ("&",), projs)
        elif k == "agg":
            kd = rv[1]
            ops = rv[2]
            if kd.get("k") == "tuple" and projs and projs[0][0] == "f":
                i = projs[0][1]
                if i < len(ops) and is_place_operand(ops[i]):
                    inner = self.canon(op_place(ops[i]), see, depth + 1)
                    return self._append(inner, projs[1:])
            return (("agg", bb, idx),) + tuple(projs)
        elif k == "cast":
            op = rv[2]
            if is_place_operand(op) and rv[1].startswith("PointerCoercion"):
                inner = self.canon(op_place(op), see, depth + 1)
                return self._append(inner, projs)
        return (("local", local),) + tuple(projs)

    @staticmethod
    def _append(inner, projs):
        out = list(inner)
        for p in projs:
            if p == "*" and out and out[-1] == "&":
                out.pop()
            else:
                out.append(p)
        return tuple(out)

    def const_value(self, c):
        """Value of a constant operand; promoted constants (`&"_"`) are
        resolved through the promoted body's constants."""
        if "v" in c:
            return c["v"]
        if "fn" in c:
            return c["fn"]
        if "promoted" in c:
            proms = self.j.get("promoted") or []
            i = c["promoted"]
            if i < len(proms) and len(proms[i]) == 1:
                return self.const_value(proms[i][0])
        return None

    def canon_op(self, op, see_through=None):
        if is_place_operand(op):
            return self.canon(op_place(op), see_through)
        c = op_const(op)
        return (("const", repr(self.const_value(c))),)

    def chain_locals(self, place, see_through=None):
        """Locals on the single-definition resolution chain of a place."""
        out = set()
        seen = set()
        st = [place[0]]
        while st:
            l = st.pop()
            if l in seen:
                continue
            seen.add(l)
            out.add(l)
            sd = self.single_def(l)
            if sd is None:
                continue
            bb, idx, kind, payload = sd
            if kind == "call":
                c = payload
                if see_through and c.res in see_through and c.args \
                        and is_place_operand(c.args[0]):
                    st.append(op_place(c.args[0])[0])
                continue
            rv = payload
            if rv[0] == "use" and is_place_operand(rv[1]):
                st.append(op_place(rv[1])[0])
            elif rv[0] == "cfd":
                st.append(rv[1][0])
            elif rv[0] == "ref":
                st.append(rv[2][0])
            elif rv[0] == "agg" and rv[1].get("k") == "tuple":
                for o in rv[2]:
                    if is_place_operand(o):
                        st.append(op_place(o)[0])
        return out

    # ---- switch decoding -------------------------------------------------
    def switch_info(self, bb):
        """For a switch terminator: dict(kind='discr'|'bool'|'int'|'char',
        place=<place switched on (for discr: the enum place)>, ty, cases=
        [(label, target)], otherwise).  For discr the labels are variant
        names."""
        t = self.term(bb)
        if t["k"] != "switch":
            return None
        on = t["on"]
        ty = t["ty"]
        info = {"ty": ty, "otherwise": t["else"], "raw": t}
        if is_place_operand(on):
            pl = op_place(on)
            if not pl[1]:
                # find defining discr in this block
                for s in reversed(self.stmts(bb)):
                    if s[0] == "=" and s[1] == pl:
                        rv = s[2]
                        if rv[0] == "discr":
                            ety = rv[2]
                            table = dict((str(v), n) for v, n in
                                         self.prog.enums.get(ety, []))
                            cases = []
                            for v, tgt in t["targets"]:
                                cases.append((table.get(str(v), "#%s" % v), tgt))
                            info.update(kind="discr", place=rv[1], enum=ety,
                                        cases=cases,
                                        variants=[n for _, n in
                                                  self.prog.enums.get(ety, [])])
                            return info
                        break
        if ty == "bool":
            cases = [(bool(v), tgt) for v, tgt in t["targets"]]
            info.update(kind="bool", on=on, cases=cases)
            return info
        if ty == "char":
            cases = [(chr(int(v)), tgt) for v, tgt in t["targets"]]
            info.update(kind="char", on=on, cases=cases)
            return info
        cases = [(int(v), tgt) for v, tgt in t["targets"]]
        info.update(kind="int", on=on, cases=cases)
        return info

    def bool_def(self, op):
        """If op is a local with a single def that is a comparison BinaryOp or
        a Not, return the rvalue."""
        if not is_place_operand(op):
            return None
        pl = op_place(op)
        if pl[1]:
            return None
        sd = self.single_def(pl[0])
        if sd and sd[2] == "rv":
            return sd[3]
        return None


# --------------------------------------------------------------------------

class Program:
    def __init__(self, facts):
        self.facts = facts
        self.enums = facts["enums"]
        self.fns = {}
        self.statics = {}      # initialisers of `static` items (kept apart from functions)
        for j in facts["fns"]:
            if str(j.get("kind", "")).startswith("Static"):
                self.statics[j["path"]] = j
                continue
            f = Fn(j, self)
            self.fns[f.path] = f
        self.adts = {a["path"]: a for a in facts["adts"]}
        self._children = None
        self._callers = None
        self._addr_taken = None

    def fn(self, path):
        return self.fns.get(path)

    def ctor_helper(self, path):
        """(aggregate kind, [param index feeding each field or None]) when
        `path` is a constructor helper: a hand-written, straight-line,
        non-closure function whose result is exactly one crate-enum/struct
        aggregate (possibly boxed/`Err`-wrapped by the caller, not here) whose
        fields are its parameters, passed through `to_string`/`clone`/`Box::new`
        /`into` at most."""
        memo = self.__dict__.setdefault("_ctor_helpers", {})
        if path in memo:
            return memo[path]
        memo[path] = None
        g = self.fns.get(path or "")
        if g is None or not g.full or g.is_closure or g.generated or g.from_expansion or g.impl_trait:
            return None
        if len(g.blocks) > 14 or g.natural_loops():
            return None
        if any(g.term(b)["k"] == "switch" for b in g.reachable()):
            return None
        g._is_ctor_probe = True
        try:
            aggs = [(bb, i, pl, kd, ao) for bb, i, pl, kd, ao, sp in g.aggregates()
                    if not kd["adt"].startswith(("std::", "core::", "alloc::"))]
        finally:
            g._is_ctor_probe = False
        rets = g.return_locals()
        outer = [a for a in aggs if a[2][0] in rets and not a[2][1]]
        if not outer and len(aggs) == 1:
            # `Error::X{..}.at(loc)`: the one aggregate is handed to a locating
            # wrapper (itself a constructor of a layer around its argument)
            # whose result is returned
            for c in g.calls():
                if c.is_ptr or c.dst is None or c.dst[1] or c.dst[0] not in rets or c.res == path:
                    continue
                w = self.ctor_helper(c.res)
                if w is None or "source" not in w[0].get("fields", []):
                    continue
                si = w[1][w[0]["fields"].index("source")]
                if si is None or si - 1 >= len(c.args) or not is_place_operand(c.args[si - 1]):
                    continue
                cp = g.canon_op(c.args[si - 1])
                if cp and cp[0] == ("agg", aggs[0][0], aggs[0][1]) and len(cp) == 1:
                    outer = [aggs[0]]
        if len(outer) != 1:
            return None
        bb, i, pl, kd, ao = outer[0]
        if kd["adt"] != "eval::error::Error":
            return None     # (only error constructors are virtualised: value
                            # constructors are anchors of their own)
        # nested crate aggregates (AtLoc{source: Box::new(Inner{..})}) are not
        # plain constructors
        if len(aggs) != 1:
            return None
        argmap = []
        for o in ao:
            m = None
            if is_place_operand(o):
                cp = g.canon_op(o)
                for _ in range(4):
                    if cp[0][0] == "call":
                        cc = g.call_at(cp[0][1])
                        if cc is None or not cc.args or not is_place_operand(cc.args[0]):
                            break
                        if (cc.res or "") in self.fns and self.fns[cc.res].full \
                                and not self.fns[cc.res].from_expansion:
                            break
                        cp = g.canon_op(cc.args[0])
                    else:
                        break
                cpn = [p for p in cp if p not in ("&", "*")]
                if cpn and cpn[0][0] == "arg" and len(cpn) == 1:
                    m = cpn[0][1]
            argmap.append(m)
        memo[path] = (kd, argmap)
        return memo[path]

    def full_fns(self, generated=None):
        for f in self.fns.values():
            if not f.full:
                continue
            if generated is not None and f.generated != generated:
                continue
            yield f

    def hand_fns(self):
        """Hand-written (non-generated) functions with full bodies, excluding
        derive/snafu expansions."""
        for f in self.full_fns(generated=False):
            yield f

    def closures_of(self, path):
        if self._children is None:
            self._children = defaultdict(list)
            for f in self.fns.values():
                if f.is_closure and f.parent:
                    self._children[f.parent].append(f)
        return self._children.get(path, [])

    def adt_variants(self, adt_path):
        a = self.adts.get(adt_path)
        if not a:
            return []
        return a["variants"]

    def enum_variant_names(self, ty):
        return [n for _, n in self.enums.get(ty, [])]

    # ---- address-taken functions (used as values) ------------------------
    def addr_taken(self):
        if self._addr_taken is None:
            out = defaultdict(list)
            for f in self.full_fns():
                for bb, i, pl, rv, sp in f.assigns():
                    for op in rvalue_operands(rv):
                        c = op_const(op)
                        if c and "fn" in c:
                            out[c["fn"]].append((f.path, c["ty"]))
                for c in f.calls():
                    for a in c.args:
                        k = op_const(a)
                        if k and "fn" in k:
                            out[k["fn"]].append((f.path, k["ty"]))
            self._addr_taken = out
        return self._addr_taken

    # ---- call graph ---------------------------------------------------------
    def callees(self, f, ptr_targets=None):
        """Resolved local/non-local callee paths of function f, including the
        closures it creates (a closure is attributed to its creator: it can
        only be invoked by the creator or by a callee it is handed to)."""
        out = set()
        if not f.full:
            for cj in f.j.get("calls", []):
                import json as _j
                c = cj
                p = c.get("res") or c.get("def")
                if p:
                    out.add(p)
            return out
        for c in f.calls():
            if c.is_ptr:
                if ptr_targets:
                    out |= set(ptr_targets(c))
            else:
                out.add(c.res)
        for bb, i, pl, rv, sp in f.assigns():
            if rv[0] == "agg" and rv[1].get("k") == "closure":
                out.add(rv[1]["def"])
            for op in rvalue_operands(rv):
                k = op_const(op)
                if k and "fn" in k and k.get("fn_local"):
                    out.add(k["fn"])
        for c in f.calls():
            for a in c.args:
                k = op_const(a)
                if k and "fn" in k and k.get("fn_local"):
                    out.add(k["fn"])
        return out

    def fnptr_targets(self, call):
        """Targets of an indirect call: every address-taken local function
        (type-insensitive over-approximation refined by arity)."""
        n = len(call.args)
        pty = (call.callee.get("ty") or "")
        import re as _re
        norm = lambda t: _re.sub(r"for<[^>]*> ", "", _re.sub(r"'[a-z_0-9]+ ", "", t)).strip()
        outs = []
        for p, uses in self.addr_taken().items():
            f = self.fns.get(p)
            if f is None or f.arg_count != n:
                continue
            # the pointer's type, when known, must be the item's signature
            if pty.startswith(("fn(", "for<")) and uses:
                sigs = {norm(t.split(" {")[0]) for _, t in uses}
                if norm(pty) not in sigs:
                    continue
            outs.append(p)
        return outs

    def call_graph(self):
        g = {}
        for f in self.fns.values():
            g[f.path] = self.callees(f, self.fnptr_targets)
        return g

    def reachable_from(self, roots, graph=None):
        g = graph or self.call_graph()
        seen = set()
        st = list(roots)
        while st:
            p = st.pop()
            if p in seen:
                continue
            seen.add(p)
            for q in g.get(p, ()):
                if q not in seen:
                    st.append(q)
        return seen

    def callers_of(self, path):
        if self._callers is None:
            self._callers = defaultdict(list)
            for f in self.full_fns():
                for c in f.calls():
                    if not c.is_ptr:
                        self._callers[c.res].append(c)
        return self._callers.get(path, [])

    def summarize(self, direct):
        """Least fixpoint of a may-effect: direct(fn) -> set; result maps every
        function path to the union over everything it can reach."""
        g = self.call_graph()
        eff = {}
        for p, f in self.fns.items():
            eff[p] = set(direct(f))
        # foreign callees: direct_foreign handled by caller through `direct`
        changed = True
        while changed:
            changed = False
            for p in g:
                cur = eff[p]
                n = len(cur)
                for q in g[p]:
                    e = eff.get(q)
                    if e:
                        cur |= e
                if len(cur) != n:
                    changed = True
        return eff


def rvalue_operands(rv):
    k = rv[0]
    if k in ("use", "repeat", "wub"):
        return [rv[1]]
    if k == "cast":
        return [rv[2]]
    if k == "bin":
        return [rv[2], rv[3]]
    if k == "un":
        return [rv[2]]
    if k == "agg":
        return list(rv[2])
    return []


def rvalue_places(rv):
    """Places read by an rvalue."""
    out = []
    for op in rvalue_operands(rv):
        if is_place_operand(op):
            out.append(op_place(op))
    k = rv[0]
    if k == "ref":
        out.append(rv[2])
    elif k == "addr":
        out.append(rv[2])
    elif k in ("discr", "cfd"):
        out.append(rv[1])
    return out


# --------------------------------------------------------------------------
# A4: relational variant dataflow

def flag_locals(fn):
    """Bool locals only ever assigned constants, copies or negations of other
    such locals (lowered `matches!`, `!flag`, `a || b`)."""
    memo = getattr(fn, "_flag_locals", None)
    if memo is None:
        memo = fn._flag_locals = VariantFlow._flag_locals_of(fn)
    return memo


def flag_transfer(fn, flags, bb, env):
    return VariantFlow._flag_transfer_of(fn, flags, bb, env)


def flag_edges(fn, flags, bb, env):
    """Successors of bb feasible under the flag environment `env` (the state
    after bb's statements)."""
    t = fn.term(bb)
    if t["k"] == "switch":
        info = fn.switch_info(bb)
        if info and info["kind"] == "bool" and is_place_operand(info["on"]) \
                and not op_place(info["on"])[1] and op_place(info["on"])[0] in flags:
            val = env.get(op_place(info["on"])[0])
            if isinstance(val, bool):
                tgt = info["otherwise"]
                for v, tg in info["cases"]:
                    if v is val:
                        tgt = tg
                return [tgt]
        if info and info["kind"] == "discr":
            # an enum local whose variant was fixed where it was assigned
            cp = fn.canon(info["place"])
            if len(cp) == 1 and cp[0][0] == "local" and cp[0][1] in flags:
                val = env.get(cp[0][1])
                if isinstance(val, str):
                    return [dict(info["cases"]).get(val, info["otherwise"])]
    return fn.succs(bb)


def flag_reach(fn, start, avoid=()):
    """Blocks reachable from `start` along paths consistent with the flag and
    variant locals assigned on the way (`let r = if z { None } else { Some(..) };
    match r {..}` follows only the matching edge)."""
    flags = flag_locals(fn)
    if not flags:
        return fn.reach_from(start, avoid)
    avoid = set(avoid)
    seen = set()
    out = set()
    st = [(start, frozenset())]
    budget = 40000
    while st and budget > 0:
        budget -= 1
        b, envk = st.pop()
        if b in avoid or (b, envk) in seen:
            continue
        seen.add((b, envk))
        out.add(b)
        env = flag_transfer(fn, flags, b, dict(envk))
        k2 = frozenset(env.items())
        for s2 in flag_edges(fn, flags, b, env):
            st.append((s2, k2))
    if budget <= 0:
        return fn.reach_from(start, avoid)
    return out


class VariantFlow:
    """Forward dataflow whose state at a block is the set of tuples of enum
    variants (one component per tracked canonical path) with which control can
    reach the block.  Edges of a `switchInt(discriminant(P))` filter the
    component of P.  The tracked paths must be immutable while the function
    runs (parameters behind shared references, or single-definition locals);
    an assignment to a local on a tracked path's resolution chain widens that
    component again, so loops are handled soundly.

    The state is relational in one more respect: *flag locals* — bool locals
    that are only ever assigned constants, copies or negations of other flags
    (the lowering of `matches!(x, P)`, `a || b`, `!flag`) — are tracked per
    tuple, and a `switchInt` on such a flag only follows the edge its value
    selects.  `if !matches!(e, Escape::None) { return .. }` is thereby as
    precise as the `match` it abbreviates."""

    def __init__(self, fn, tracked, see_through=None, init=None):
        """tracked: list of (canonical_path, enum_type_string)."""
        self.fn = fn
        self.tracked = tracked
        self.see = see_through
        self.doms = []
        for cp, ety in tracked:
            self.doms.append(fn.prog.enum_variant_names(ety))
        self.index = {cp: i for i, (cp, _) in enumerate(tracked)}
        import itertools
        if init is None:
            init = set(itertools.product(*self.doms))
        self.state = {0: frozenset(init)}
        self.xstate = {0: frozenset((t, frozenset()) for t in init)}
        self.edge_state = {}
        self.flags = self._flag_locals()
        # blocks that (re)define the root of a tracked path: the component is
        # widened to all variants when control passes through them
        self.widen_at = defaultdict(list)
        for k, (cp, _) in enumerate(tracked):
            root = cp[0]
            if root[0] in ("call", "agg"):
                self.widen_at[root[1]].append(k)
            elif root[0] == "local":
                for (bb, idx, kind, payload) in fn.defs().get(root[1], []) + \
                        fn.partial_defs().get(root[1], []):
                    self.widen_at[bb].append(k)
        self._run()

    def _flag_locals(self):
        return flag_locals(self.fn)

    def _flag_transfer(self, bb, env):
        return VariantFlow._flag_transfer_of(self.fn, self.flags, bb, env)

    @staticmethod
    def _variant_locals_of(fn):
        """Enum-typed locals every definition of which is an aggregate of a
        known variant (`let k = if c { Some(x) } else { None }`, the result
        slot of an inlined accessor): their variant is tracked like a flag."""
        out = set()
        for l, ds in fn.defs().items():
            if l <= fn.arg_count or not ds or fn.partial_defs().get(l):
                continue
            ok = True
            for (bb, idx, kind, payload) in ds:
                if kind != "rv" or payload[0] != "agg" or payload[1].get("k") != "adt" \
                        or not payload[1].get("is_enum"):
                    ok = False
                    break
            if ok:
                out.add(l)
        return out

    @staticmethod
    def _flag_locals_of(fn):
        cands = {i for i, t in enumerate(fn.locals) if t == "bool" and i > fn.arg_count}
        changed = True
        while changed:
            changed = False
            for l in list(cands):
                ok = True
                ds = fn.defs().get(l, [])
                if not ds or fn.partial_defs().get(l):
                    ok = False
                for (bb, idx, kind, payload) in ds:
                    if kind != "rv":
                        ok = False
                        break
                    rv = payload
                    if rv[0] == "use":
                        if is_place_operand(rv[1]):
                            p = op_place(rv[1])
                            if p[1] or p[0] not in cands:
                                ok = False
                        elif not isinstance(const_val(rv[1]), bool):
                            ok = False
                    elif rv[0] == "un" and rv[1] == "Not" and is_place_operand(rv[2]):
                        p = op_place(rv[2])
                        if p[1] or p[0] not in cands:
                            ok = False
                    else:
                        ok = False
                    if not ok:
                        break
                if not ok:
                    cands.discard(l)
                    changed = True
        return cands | VariantFlow._variant_locals_of(fn)

    @staticmethod
    def _flag_transfer_of(fn, flags, bb, env):
        """env: dict flag local -> bool after the statements of bb."""
        env = dict(env)
        for s in fn.stmts(bb):
            if s[0] != "=" or s[1][1] or s[1][0] not in flags:
                continue
            dst = s[1][0]
            rv = s[2]
            val = None
            if rv[0] == "agg":
                env[dst] = rv[1].get("variant")
                continue
            if rv[0] == "use":
                if is_place_operand(rv[1]):
                    val = env.get(op_place(rv[1])[0])
                else:
                    val = const_val(rv[1])
            elif rv[0] == "un":
                v = env.get(op_place(rv[2])[0])
                val = (not v) if v is not None else None
            if isinstance(val, (bool, str)):
                env[dst] = val
            else:
                env.pop(dst, None)
        return env

    def _widen(self, st, comps):
        import itertools
        out = set()
        for t in st:
            choices = [self.doms[i] if i in comps else [t[i]] for i in range(len(t))]
            out.update(itertools.product(*choices))
        return frozenset(out)

    def _filter(self, st, comp, allowed):
        allowed = set(allowed)
        return frozenset(t for t in st if t[comp] in allowed)

    def _run(self):
        fn = self.fn
        work = deque([0])
        inq = {0}
        CAP = 6000
        while work:
            bb = work.popleft()
            inq.discard(bb)
            xs = self.xstate.get(bb, frozenset())
            if not xs:
                continue
            if bb in self.widen_at:
                comps = set(self.widen_at[bb])
                nx = set()
                for t, env in xs:
                    for t2 in self._widen(frozenset([t]), comps):
                        nx.add((t2, env))
                xs = frozenset(nx)
            # flags after the statements of this block
            if self.flags:
                nx = set()
                cache = {}
                for t, env in xs:
                    if env not in cache:
                        cache[env] = frozenset(self._flag_transfer(bb, dict(env)).items())
                    nx.add((t, cache[env]))
                xs = frozenset(nx)
                if len(xs) > CAP:
                    xs = frozenset((t, frozenset()) for t, _ in xs)
            info = fn.switch_info(bb) if fn.term(bb)["k"] == "switch" else None
            outs = []
            if info and info["kind"] == "discr":
                cp = fn.canon(info["place"], self.see)
                comp = self.index.get(cp)
                if comp is not None:
                    listed = [n for n, _ in info["cases"]]
                    for n, tgt in info["cases"]:
                        outs.append((tgt, frozenset(x for x in xs if x[0][comp] == n)))
                    rest = set(v for v in self.doms[comp] if v not in listed)
                    outs.append((info["otherwise"], frozenset(x for x in xs if x[0][comp] in rest)))
                elif len(cp) == 1 and cp[0][0] == "local" and cp[0][1] in self.flags:
                    # a local whose variant was fixed where it was assigned
                    vl = cp[0][1]
                    cases = dict(info["cases"])
                    for x in xs:
                        val = dict(x[1]).get(vl)
                        if isinstance(val, str):
                            outs.append((cases.get(val, info["otherwise"]), frozenset([x])))
                        else:
                            for s in fn.succs(bb):
                                outs.append((s, frozenset([x])))
                else:
                    outs = [(s, xs) for s in fn.succs(bb)]
            elif info and info["kind"] == "bool" and is_place_operand(info["on"]) \
                    and not op_place(info["on"])[1] and op_place(info["on"])[0] in self.flags:
                fl = op_place(info["on"])[0]
                t_true = t_false = info["otherwise"]
                seen_vals = set()
                for v, tgt in info["cases"]:
                    seen_vals.add(v)
                    if v is True:
                        t_true = tgt
                    if v is False:
                        t_false = tgt
                for x in xs:
                    val = dict(x[1]).get(fl)
                    if val is True:
                        outs.append((t_true, frozenset([x])))
                    elif val is False:
                        outs.append((t_false, frozenset([x])))
                    else:
                        for s in fn.succs(bb):
                            outs.append((s, frozenset([x])))
            else:
                outs = [(s, xs) for s in fn.succs(bb)]
            merged = {}
            for tgt, s in outs:
                merged[tgt] = merged.get(tgt, frozenset()) | s
            for tgt, s in merged.items():
                self.edge_state[(bb, tgt)] = frozenset(t for t, _ in s)
                old = self.xstate.get(tgt, frozenset())
                new = old | s
                if new != old:
                    self.xstate[tgt] = new
                    self.state[tgt] = frozenset(t for t, _ in new)
                    if tgt not in inq:
                        work.append(tgt)
                        inq.add(tgt)

    def at(self, bb):
        return self.state.get(bb, frozenset())

    def blocks_for(self, tup):
        return {bb for bb, st in self.state.items() if tup in st}


# --------------------------------------------------------------------------
# small utilities for type strings

MUTEX_RE = re.compile(r"std::sync::Mutex::<(.*)>::(try_lock|lock)$")


_GUARD_RE = re.compile(r"std::sync::MutexGuard<'[^,]*, ")


def _guard_payload(ty):
    m = _GUARD_RE.search(ty or "")
    if not m:
        return None
    i = m.end()
    depth, j = 1, i
    while j < len(ty) and depth > 0:
        if ty[j] == "<":
            depth += 1
        elif ty[j] == ">":
            depth -= 1
        j += 1
    return ty[i:j - 1]


def mutex_locked_type(call):
    """If the call acquires a Mutex<T>, return T (type string): a direct
    Mutex<T>::try_lock/lock, or a call of a crate-local locking helper that
    hands back a MutexGuard<'_, T> it did not receive (e.g. `lock_list(&ListRef)
    -> MutexGuard<'_, List>`; the payload type is read at the call site, so a
    generic helper is instantiated)."""
    full = call.res_full or ""
    m = MUTEX_RE.match(full)
    if m:
        return m.group(1)
    if call.is_ptr or call.dstty is None:
        return None
    p = _guard_payload(call.dstty)
    if p is None or any(_guard_payload(t) is not None for t in call.argtys):
        return None
    g = call.fn.prog.fns.get(call.res)
    if g is None or g.is_closure or g.generated:
        return None
    return p


def guard_type_arg(ty):
    """T of MutexGuard<'_, T>."""
    m = re.match(r"std::sync::MutexGuard<'[^,]*, (.*)>$", ty)
    if m:
        return m.group(1)
    return None
