"""Rule/result/evidence plumbing shared by all property modules."""
import json
import os
import re
import time

VERIF = os.path.dirname(os.path.dirname(os.path.abspath(__file__)))


class Violation:
    def __init__(self, rule, key, message, where=None, detail=None):
        self.rule = rule
        # semantic key: never contains a line number
        self.key = "%s | %s" % (rule, key)
        self.message = message
        self.where = where
        self.detail = detail or {}

    def to_json(self):
        return {"rule": self.rule, "key": self.key, "message": self.message,
                "where": self.where, "detail": self.detail}


class RuleResult:
    def __init__(self, rule, title, necessary_for=None):
        self.rule = rule
        self.title = title
        self.necessary_for = necessary_for or ""
        self.instances = []      # what was analysed (strings)
        self.obligations = 0
        self.discharged = 0
        self.violations = []
        self.unproven = []       # sites the analysis cannot model (no alarm)
        self.notes = []
        self.floor = None        # (name, expected_min, actual)

    def inst(self, s):
        self.instances.append(s)

    def ok(self, n=1):
        self.obligations += n
        self.discharged += n

    def fail(self, key, message, where=None, detail=None):
        self.obligations += 1
        self.violations.append(Violation(self.rule, key, message, where, detail))

    def require_floor(self, name, actual, expected_min):
        """Fail closed when an anchor or instance count is below what was
        confirmed by hand on the pinned tree."""
        self.floor = (name, expected_min, actual)
        if actual < expected_min:
            self.fail("anchor-missing %s" % name,
                      "rule %s matched %d %s, below the confirmed floor %d: "
                      "the rule cannot pass vacuously"
                      % (self.rule, actual, name, expected_min))
            return False
        return True

    def anchor_missing(self, what):
        self.fail("anchor-missing %s" % what,
                  "rule %s could not find its anchor: %s" % (self.rule, what))

    def to_json(self):
        return {
            "rule": self.rule, "title": self.title,
            "necessary_for": self.necessary_for,
            "obligations": self.obligations, "discharged": self.discharged,
            "n_instances": len(self.instances),
            "instances": self.instances[:60],
            "unproven": self.unproven[:40],
            "notes": self.notes,
            "floor": self.floor,
            "violations": [v.to_json() for v in self.violations],
        }


class Ctx:
    def __init__(self, prog, parser_rs, repo, tier, meta):
        self.prog = prog
        self.parser_rs = parser_rs
        self.repo = repo
        self.tier = tier
        self.meta = meta
        self._grammar = None
        self._memo = {}

    @property
    def grammar(self):
        if self._grammar is None:
            from grammar import Grammar
            with open(os.path.join(self.repo, "src", "parser.lalrpop")) as fh:
                src = fh.read()
            self._grammar = Grammar(self.parser_rs, src)
        return self._grammar

    def memo(self, key, thunk):
        if key not in self._memo:
            self._memo[key] = thunk()
        return self._memo[key]


# --------------------------------------------------------------------------
# known findings

def load_known(path=None):
    path = path or os.path.join(VERIF, "known_findings.txt")
    known = {}
    fixed = []
    if not os.path.exists(path):
        return known, fixed
    with open(path) as fh:
        for line in fh:
            line = line.rstrip("\n")
            if not line.strip() or line.lstrip().startswith("#"):
                continue
            m = re.match(r"known:\s+property=(\S+)\s+key=\[(.*?)\]\s*::\s*(.*)$", line)
            if m:
                known.setdefault(m.group(1), {})[m.group(2)] = m.group(3)
                continue
            m = re.match(r"fixed:\s+property=(\S+)\s+(\S+)\s+(.*)$", line)
            if m:
                fixed.append((m.group(1), m.group(2), m.group(3)))
    return known, fixed


# --------------------------------------------------------------------------

def finish(prop_id, level, results, ctx, t0, technique, trusted_base,
           assumptions, explanation, checker_cmd, extra=None):
    """Write evidence, print verdict lines, return the exit code."""
    known, fixed = load_known()
    kn = known.get(prop_id, {})
    all_v = []
    for r in results:
        all_v.extend(r.violations)
    unlisted = [v for v in all_v if v.key not in kn]
    listed = [v for v in all_v if v.key in kn]
    obligations = sum(r.obligations for r in results)
    discharged = sum(r.discharged for r in results)
    samples = []
    for r in results:
        for s in r.instances[:3]:
            samples.append("%s: %s" % (r.rule, s))
    cov = {
        "obligations": obligations,
        "discharged": discharged,
        "checker_cmd": checker_cmd,
        "trusted_base": trusted_base,
        "explanation": explanation,
        "samples": samples[:40] or ["(no instances)"],
        "rules": [r.to_json() for r in results],
        "unproven_sites": sum(len(r.unproven) for r in results),
        "functions_analysed": len([f for f in ctx.prog.fns.values() if f.full]),
        "bodies_in_crate": ctx.prog.facts.get("n_bodies"),
        "facts": ctx.meta,
        "technique": technique,
        "exhaustive": True,
        "known_findings_listed": [v.key for v in listed],
    }
    if extra:
        cov.update(extra)
    ev = {
        "property_id": prop_id,
        "tier": ctx.tier,
        "seed": int(os.environ.get("VERIF_SEED", "0") or 0),
        "level": level,
        "coverage": cov,
        "assumptions": assumptions,
        "wall_s": round(time.time() - t0, 3),
        "violations": len(unlisted),
    }
    evdir = os.environ.get("VERIF_EVIDENCE_DIR") or os.path.join(VERIF, "evidence")
    os.makedirs(evdir, exist_ok=True)
    with open(os.path.join(evdir, "%s.json" % prop_id), "w") as fh:
        json.dump(ev, fh, indent=1, sort_keys=False)
        fh.write("\n")
    for r in results:
        status = "ok" if not r.violations else "VIOLATED"
        print("[%s] %-7s %-9s obligations=%d discharged=%d instances=%d unproven=%d  %s"
              % (prop_id, r.rule, status, r.obligations, r.discharged,
                 len(r.instances), len(r.unproven), r.title))
    for v in listed:
        print("KNOWN-FINDING: property=%s %s :: %s" % (prop_id, v.key, kn[v.key]))
    code = 0
    if unlisted:
        rpdir = os.environ.get("VERIF_REPLAY_DIR") or os.path.join(VERIF, "replay")
        os.makedirs(rpdir, exist_ok=True)
        for i, v in enumerate(unlisted):
            rp = os.path.join(rpdir, "%s-%d.json" % (prop_id, i))
            with open(rp, "w") as fh:
                json.dump({"property": prop_id, **v.to_json()}, fh, indent=1)
            if i < 12:
                print("  %s\n    at %s\n    %s" % (v.key, v.where, v.message))
                print("VIOLATION property=%s replay=%s" % (prop_id, rp))
        if len(unlisted) > 12:
            print("  ... and %d more violations (all recorded in %s and in the "
                  "evidence file)" % (len(unlisted) - 12, rpdir))
        code = 1
    return code
