"""A3 — demand-driven backward provenance over the whole crate.

`Prov.origins(fn, operand_or_place)` answers "which values can this be?" as a
set of origin items, following (flow-insensitively, field-based for crate
ADTs) assignments, aggregate construction/projection, references, clones,
calls into local functions (return place), parameters (all call sites; closure
environments to the creating function), and — as a collapse — foreign calls
(the result derives from all arguments) and mutations of foreign containers
through `&mut`.

Origin items:
  ('const', repr, ty)                 a constant
  ('agg', fn, bb, idx, adt, variant)  the value *is* this aggregate
  ('closure', def)                    a closure value
  ('call', fn, bb, callee, pi)        result of a foreign call (pi = residual
                                      projection), also reported when the
                                      traversal continues through its args
  ('op', fn, bb, idx, kind)           computed by a MIR operator
  ('param', fn, n, pi)                parameter of a function without callers
  ('unknown', why)
"""
import mir

IDENTITY_CALLS = (
    "std::clone::Clone::clone", "std::borrow::ToOwned::to_owned",
    "std::ops::Deref::deref", "std::ops::DerefMut::deref_mut",
    "std::borrow::Borrow::borrow", "std::borrow::BorrowMut::borrow_mut",
    "std::convert::AsRef::as_ref", "std::convert::AsMut::as_mut",
    "std::convert::From::from", "std::convert::Into::into",
    "std::hint::must_use", "std::boxed::Box::<T>::new",
    "std::sync::Arc::<T>::new", "std::sync::Mutex::<T>::new",
)

FOREIGN_CONTAINER_PREFIXES = (
    "std::vec::Vec<", "std::collections::", "std::string::String",
    "std::option::Option<", "std::vec::IntoIter<", "std::slice::Iter<",
    "std::iter::", "std::str::", "std::collections::VecDeque<",
)


ANY = ("?",)   # "any sub-part": set once a foreign call has been crossed


def norm_proj(p):
    if p == "*":
        return "*"
    k = p[0]
    if k == "f":
        adt = p[4] if len(p) > 4 else ""
        var = p[5] if len(p) > 5 else ""
        return ("f", p[1], adt, var)
    if k == "d":
        return ("d", p[1])
    if k == "i":
        return ("i",)
    if k == "ci":
        return ("i",)
    if k == "ss":
        return ("ss",)
    return (k,)


class Prov:
    def __init__(self, prog, foreign="through", identity=IDENTITY_CALLS,
                 max_pi=10, field_based=True, terminal=None,
                 lalrpop_bridge=True, follow_params=True):
        self.prog = prog
        self.foreign = foreign
        self.identity = set(identity)
        self.max_pi = max_pi
        self.field_based = field_based
        self.terminal = terminal      # predicate(Call) -> stop at this call
        self.lalrpop_bridge = lalrpop_bridge
        self.follow_params = follow_params   # False: stop at function parameters
        self.memo = {}
        self.inprog = set()
        self.cyclic = False
        self.ctx = []            # call-string context: [(caller path, bb), ...]
        self.max_ctx = 4
        self.max_steps = 150000  # per origins() query
        self.exhausted = False
        self._agg_index = None
        self._mut_index = {}
        self._field_writes = None
        self._ptr_callers = None

    # ---- public ---------------------------------------------------------
    def origins_of_call(self, f, call, pi=()):
        """Origins of (the sub-part `pi` of) the value returned by one call."""
        self.steps = 0
        res = None
        for _ in range(4):
            self.cyclic = False
            res = self._call_result(f, call, tuple(pi))
            if not self.cyclic:
                break
        return res

    def origins(self, f, x, pi=()):
        """x: operand or place."""
        res = None
        self.steps = 0
        for _ in range(4):
            self.cyclic = False
            res = self._operand(f, x, tuple(pi)) if x and x[0] in ("cp", "mv", "k") \
                else self._place(f, x, tuple(pi))
            if not self.cyclic:
                break
            # re-run with the memo as the assumption for cycles
            stable = dict(self.memo)
            self.memo = {k: v for k, v in stable.items()}
            self._assume = stable
        return res

    # ---- internals --------------------------------------------------------
    def _operand(self, f, op, pi):
        if op[0] in ("cp", "mv"):
            return self._place(f, op[1], pi)
        if op[0] == "k":
            c = op[1]
            if "fn" in c:
                return frozenset([("fnitem", c["fn"])])
            return frozenset([("const", repr(c.get("v", c.get("pp"))), c.get("ty"))])
        return frozenset()

    def _place(self, f, place, pi):
        local, projs = place
        np = tuple(norm_proj(p) for p in projs)
        return self._local(f, local, np + tuple(pi))

    @staticmethod
    def _strip_deref(pi):
        if pi and pi[0] == "*":
            return pi[1:]
        return pi

    @staticmethod
    def _is_any(pi):
        return bool(pi) and pi[0] == ANY

    def _local(self, f, local, pi):
        if len(pi) > self.max_pi:
            return frozenset([("unknown", "projection too deep")])
        key = (f.path, local, pi, tuple(self.ctx))
        if key in self.memo:
            return self.memo[key]
        if key in self.inprog:
            self.cyclic = True
            prev = getattr(self, "_assume", None)
            if prev and key in prev:
                return prev[key]
            return frozenset()
        self.steps = getattr(self, "steps", 0) + 1
        if self.steps > self.max_steps:
            self.exhausted = True
            return frozenset([("unknown", "analysis budget exhausted")])
        self.inprog.add(key)
        out = set()
        self._depth = getattr(self, "_depth", 0) + 1
        if self._depth > 300:
            self._depth -= 1
            self.inprog.discard(key)
            return frozenset([("unknown", "resolution too deep")])
        try:
            if 1 <= local <= f.arg_count:
                out |= self._param(f, local, pi)
            else:
                ds = f.defs().get(local, [])
                for (bb, idx, kind, payload) in ds:
                    if kind == "call":
                        out |= self._call_result(f, payload, pi)
                    else:
                        out |= self._rvalue(f, bb, idx, payload, pi)
                for (bb, idx, kind, payload) in f.partial_defs().get(local, []):
                    out |= self._partial(f, local, bb, idx, kind, payload, pi)
                if not ds and not f.partial_defs().get(local):
                    out.add(("unknown", "no definition of _%d in %s" % (local, f.path)))
                # mutations of foreign containers through &mut
                if local < len(f.locals) and self._is_foreign_container(f.locals[local]):
                    for c, others in self._mutations(f, local):
                        out.add(("call", f.path, c.bb, c.res, ()))
                        for a in others:
                            out |= self._operand(f, a, (ANY,))
        finally:
            self.inprog.discard(key)
            self._depth -= 1
        res = frozenset(out)
        self.memo[key] = res
        return res

    def _is_foreign_container(self, ty):
        t = ty
        while t.startswith("&"):
            t = t[1:].lstrip()
            if t.startswith("mut "):
                t = t[4:]
        return t.startswith(FOREIGN_CONTAINER_PREFIXES)

    def _mutations(self, f, local):
        """Calls that receive `&mut local` (possibly reborrowed)."""
        key = (f.path, local)
        if key in self._mut_index:
            return self._mut_index[key]
        out = []
        base = f.canon([local, []])
        for c in f.calls():
            for i, a in enumerate(c.args):
                if not mir.is_place_operand(a):
                    continue
                ty = c.argtys[i] if i < len(c.argtys) else ""
                if not ty.startswith("&mut "):
                    continue
                cp = f.canon(mir.op_place(a))
                if cp[:len(base)] == base and all(p in ("&", "*") for p in cp[len(base):]) \
                        and len(cp) > len(base):
                    others = [b for j, b in enumerate(c.args) if j != i]
                    out.append((c, others))
        self._mut_index[key] = out
        return out

    def _rvalue(self, f, bb, idx, rv, pi):
        k = rv[0]
        if k == "use":
            return self._operand(f, rv[1], pi)
        if k == "cfd":
            return self._place(f, rv[1], pi)
        if k == "ref" or k == "addr":
            return self._place(f, rv[2], self._strip_deref(pi))
        if k == "cast":
            return self._operand(f, rv[2], pi)
        if k == "agg":
            kd = rv[1]
            ops = rv[2]
            kk = kd.get("k")
            if self._is_any(pi):
                out = set()
                if kk == "closure":
                    out.add(("closure", kd["def"]))
                else:
                    out.add(("agg", f.path, bb, idx, kd.get("adt", kk), kd.get("variant", "")))
                for o in ops:
                    out |= self._operand(f, o, (ANY,))
                return frozenset(out)
            if kk == "closure":
                if not pi:
                    return frozenset([("closure", kd["def"])])
                # upvar read of a closure value
                if pi[0] != "*" and pi[0][0] == "f" and pi[0][1] < len(ops):
                    return self._operand(f, ops[pi[0][1]], pi[1:])
                return frozenset([("closure", kd["def"])])
            if kk in ("tuple", "array"):
                if not pi:
                    out = set([("agg", f.path, bb, idx, kk, "")])
                    return frozenset(out)
                if pi[0] != "*" and pi[0][0] == "f" and pi[0][1] < len(ops):
                    return self._operand(f, ops[pi[0][1]], pi[1:])
                if pi[0] != "*" and pi[0][0] == "i":
                    out = set()
                    for o in ops:
                        out |= self._operand(f, o, pi[1:])
                    return frozenset(out)
                return frozenset([("unknown", "projection %r on %s" % (pi[0], kk))])
            if kk == "adt":
                rest = pi
                while rest and rest[0] == "*":
                    rest = rest[1:]
                if rest and rest[0][0] == "d":
                    if rest[0][1] != kd["variant"]:
                        return frozenset()   # another variant: not this def
                    rest = rest[1:]
                if not rest:
                    return frozenset([("agg", f.path, bb, idx, kd["adt"], kd["variant"])])
                if rest[0][0] == "f":
                    if rest[0][3] and rest[0][3] != kd["variant"] and kd.get("is_enum"):
                        return frozenset()
                    i = rest[0][1]
                    if "active" in kd:
                        i = 0
                    if i < len(ops):
                        return self._operand(f, ops[i], rest[1:])
                return frozenset([("agg", f.path, bb, idx, kd["adt"], kd["variant"])])
            return frozenset([("unknown", "aggregate %s" % kk)])
        if k in ("bin", "un"):
            out = set([("op", f.path, bb, idx, rv[1])])
            if self.foreign == "through":
                for o in mir.rvalue_operands(rv):
                    out |= self._operand(f, o, (ANY,))
            return frozenset(out)
        if k == "discr":
            return frozenset([("op", f.path, bb, idx, "discriminant")])
        if k == "repeat":
            return self._operand(f, rv[1], pi[1:] if pi else pi)
        return frozenset([("unknown", "rvalue %s" % k)])

    def _partial(self, f, local, bb, idx, kind, payload, pi):
        """Assignment to a projection of `local`."""
        if kind == "setdiscr":
            return frozenset()
        if kind == "call":
            place = payload.dst
        else:
            place = f.stmts(bb)[idx][1]
        rho = tuple(norm_proj(p) for p in place[1])
        n = len(rho)
        if self._is_any(pi):
            if kind == "call":
                return self._call_result(f, payload, (ANY,))
            return self._rvalue(f, bb, idx, payload, (ANY,))
        if pi[:n] == rho:
            rest = pi[n:]
            if kind == "call":
                return self._call_result(f, payload, rest)
            return self._rvalue(f, bb, idx, payload, rest)
        if rho[:len(pi)] == pi:
            # a sub-part of the queried value is written here: collapse
            if kind == "call":
                return self._call_result(f, payload, ())
            return self._rvalue(f, bb, idx, payload, ())
        return frozenset()

    def _call_result(self, f, c, pi):
        prog = self.prog
        if c.is_ptr:
            out = set()
            for p in prog.fnptr_targets(c):
                g = prog.fns.get(p)
                if g is not None and g.full:
                    out |= self._local(g, 0, pi)
            if not out:
                out.add(("call", f.path, c.bb, "<fn pointer>", pi))
            return frozenset(out)
        g = prog.fns.get(c.res)
        d = c.declared or ""
        if g is not None and g.full and g.blocks:
            if g.impl_trait == "std::clone::Clone" and g.from_expansion and c.args:
                # derive(Clone): the result is a faithful copy of *arg0
                return self._operand(f, c.args[0], ("*",) + tuple(pi))
            return self._enter(f, c, g, pi)
        if d in self.identity or c.res in self.identity:
            if c.args:
                a = c.args[0]
                npi = pi
                # Clone::clone(&x) / deref(&x): the argument is a reference
                ty = c.argtys[0] if c.argtys else ""
                if ty.startswith("&") and d not in ("std::boxed::Box::<T>::new",):
                    if d in ("std::clone::Clone::clone", "std::borrow::ToOwned::to_owned"):
                        npi = ("*",) + tuple(pi)
                    else:
                        npi = ("*",) + tuple(self._strip_deref(pi))
                elif d in ("std::boxed::Box::<T>::new", "std::sync::Arc::<T>::new",
                           "std::sync::Mutex::<T>::new"):
                    npi = self._strip_deref(pi)
                return self._operand(f, a, npi)
        # `opt.unwrap_or(d)` / `res.unwrap_or(d)`: the payload or the default
        last0 = (c.res or d).split("::")[-1]
        if last0 in ("unwrap_or", "unwrap_or_default", "unwrap", "expect") and c.args \
                and (c.argtys[0] if c.argtys else "").startswith(("std::option::Option<", "std::result::Result<")):
            opt = (c.argtys[0]).startswith("std::option::Option<")
            head = (("d", "Some"), ("f", 0, "std::option::Option", "Some")) if opt \
                else (("d", "Ok"), ("f", 0, "std::result::Result", "Ok"))
            out_ = set(self._operand(f, c.args[0], head + tuple(pi)))
            if last0 == "unwrap_or" and len(c.args) > 1:
                out_ |= self._operand(f, c.args[1], pi)
            return frozenset(out_)
        # combinators that leave one side of a Result/Option untouched
        if pi and pi[0] != ANY and pi[0] != "*" and pi[0][0] == "d" and c.args:
            side = pi[0][1]
            last = (c.res or d).split("::")[-1]
            if (side == "Ok" and last in ("map_err", "or_else")) or \
                    (side == "Err" and last in ("map", "and_then")) or \
                    (side == "Some" and last in ("or", "or_else", "filter")):
                return self._operand(f, c.args[0], pi)
            # `?` and snafu context keep the success payload
            if side == "Continue" and last == "branch" and len(pi) >= 2:
                aty = c.argtys[0] if c.argtys else ""
                if aty.startswith("std::result::Result<"):
                    return self._operand(f, c.args[0], (("d", "Ok"), ("f", 0, "std::result::Result", "Ok")) + tuple(pi[2:]))
                if aty.startswith("std::option::Option<"):
                    return self._operand(f, c.args[0], (("d", "Some"), ("f", 0, "std::option::Option", "Some")) + tuple(pi[2:]))
            if side == "Ok" and last == "context" and d.endswith("ResultExt::context"):
                return self._operand(f, c.args[0], pi)
            # Option -> Result: the Ok payload is the Some payload
            if side == "Ok" and last in ("ok_or", "ok_or_else") and len(pi) >= 2:
                return self._operand(f, c.args[0], (("d", "Some"), ("f", 0, "std::option::Option", "Some")) + tuple(pi[2:]))
            # numeric conversions: the Ok payload is the argument itself
            if side == "Ok" and last in ("try_into", "try_from") and len(pi) >= 2:
                return self._operand(f, c.args[0], tuple(pi[2:]))
        out = set([("call", f.path, c.bb, c.res, pi)])
        if self.terminal is not None and self.terminal(c):
            return frozenset(out)
        if self.foreign == "through":
            for a in c.args:
                if mir.is_place_operand(a):
                    out |= self._operand(f, a, (ANY,))
                else:
                    k = mir.op_const(a)
                    if k and "fn" in k:
                        g2 = prog.fns.get(k["fn"])
                        if g2 is not None and g2.full:
                            out |= self._local(g2, 0, (ANY,))
            # closures passed to the foreign callee may produce the result
            for a in c.args:
                if mir.is_place_operand(a):
                    for o in self._operand(f, a, ()):
                        if o[0] == "closure":
                            g2 = prog.fns.get(o[1])
                            if g2 is not None and g2.full:
                                out |= self._local(g2, 0, (ANY,))
        return frozenset(out)

    def _enter(self, f, c, g, pi):
        """Resolve the return place of local callee g for call c in f, keeping
        the call site as context so that g's parameters resolve to this site's
        arguments (call-string sensitivity, bounded)."""
        if len(self.ctx) >= self.max_ctx:
            return self._local(g, 0, pi)
        self.ctx.append((f.path, c.bb, g.path))
        try:
            return self._local(g, 0, pi)
        finally:
            self.ctx.pop()

    def _at_context_site(self, f):
        """If the innermost context entered f, return (caller fn, call)."""
        if self.ctx and self.ctx[-1][2] == f.path:
            caller = self.prog.fns.get(self.ctx[-1][0])
            if caller is not None:
                c = caller.call_at(self.ctx[-1][1])
                if c is not None:
                    return caller, c
        return None

    # ---- parameters -------------------------------------------------------
    def _param(self, f, n, pi):
        prog = self.prog
        out = set()
        if f.is_closure:
            parent = prog.fns.get(f.parent) if f.parent else None
            if n == 1:
                # environment: (*_1).k or _1.k
                rest = self._strip_deref(pi)
                if self._is_any(rest):
                    for g in self._creators(f):
                        for bb, i, pl, rv, sp in g.assigns():
                            if rv[0] == "agg" and rv[1].get("k") == "closure" \
                                    and rv[1]["def"] == f.path:
                                for o in rv[2]:
                                    out |= self._operand(g, o, (ANY,))
                    return out
                if rest and rest[0][0] == "f":
                    k = rest[0][1]
                    found = False
                    for g in self._creators(f):
                        for bb, i, pl, rv, sp in g.assigns():
                            if rv[0] == "agg" and rv[1].get("k") == "closure" \
                                    and rv[1]["def"] == f.path:
                                found = True
                                if k < len(rv[2]):
                                    out |= self._operand(g, rv[2][k], rest[1:])
                    if not found:
                        out.add(("unknown", "closure %s never constructed" % f.path))
                    return out
                return {("unknown", "closure environment used whole")}
            # ordinary closure argument: call sites pass (env, tuple)
            site = self._at_context_site(f)
            if site is not None:
                g, c = site
                args = self._closure_call_args(g, c)
                if args is not None and n - 2 < len(args):
                    saved = self.ctx.pop()
                    try:
                        return set(self._operand(g, args[n - 2], pi))
                    finally:
                        self.ctx.append(saved)
            sites = prog.callers_of(f.path)
            for c in sites:
                g = c.fn
                args = self._closure_call_args(g, c)
                if args is not None and n - 2 < len(args):
                    out |= self._operand(g, args[n - 2], pi)
                else:
                    out.add(("unknown", "closure call shape"))
            hof = self._hof_sites(f)
            for (g, c) in hof:
                out.add(("call", g.path, c.bb, c.res, ("closure-arg",)))
                if self.foreign == "through":
                    for a in c.args:
                        if mir.is_place_operand(a):
                            out |= self._operand(g, a, (ANY,))
            if not sites and not hof:
                out.add(("param", f.path, n, pi))
            return out
        site = self._at_context_site(f)
        if site is None and not self.follow_params:
            return {("param", f.path, n, pi)}
        if site is not None:
            g, c = site
            if not c.is_ptr and n - 1 < len(c.args):
                saved = self.ctx.pop()
                try:
                    return set(self._operand(g, c.args[n - 1], pi))
                finally:
                    self.ctx.append(saved)
        # field-based shortcut for crate ADT fields
        if self.field_based:
            saved_ctx = self.ctx
            self.ctx = []
            try:
                fb = self._field_based(pi)
            finally:
                self.ctx = saved_ctx
            if fb is not None:
                return fb
        if self.lalrpop_bridge and f.generated and "::__action" in f.path:
            saved_ctx = self.ctx
            self.ctx = []
            try:
                br = self._lalrpop_bridge(f, n, pi)
            finally:
                self.ctx = saved_ctx
            if br is not None:
                return br
        saved_ctx = self.ctx
        self.ctx = []
        try:
            return self._param_all_sites(f, n, pi)
        finally:
            self.ctx = saved_ctx

    def _param_all_sites(self, f, n, pi):
        prog = self.prog
        out = set()
        sites = prog.callers_of(f.path)
        for c in sites:
            if n - 1 < len(c.args):
                out |= self._operand(c.fn, c.args[n - 1], pi)
        # address-taken: called through fn pointers
        if f.path in prog.addr_taken():
            for (g, c) in self._ptr_call_sites(f):
                if n - 1 < len(c.args):
                    out |= self._operand(g, c.args[n - 1], pi)
        if not sites and f.path not in prog.addr_taken():
            out.add(("param", f.path, n, pi))
        return out

    def _creators(self, f):
        p = self.prog.fns.get(f.parent) if f.parent else None
        cands = []
        if p is not None:
            cands.append(p)
            cands.extend(self.prog.closures_of(p.path))
        return [g for g in cands if g.full]

    def _closure_call_args(self, g, c):
        if len(c.args) == 2 and mir.is_place_operand(c.args[1]):
            pl = mir.op_place(c.args[1])
            if not pl[1]:
                sd = g.single_def(pl[0])
                if sd and sd[2] == "rv" and sd[3][0] == "agg" \
                        and sd[3][1].get("k") == "tuple":
                    return list(sd[3][2])
        return None

    def _hof_sites(self, f):
        """Foreign calls that receive closure f as an argument."""
        out = []
        for g in self._creators(f):
            for c in g.calls():
                if c.is_ptr or (c.res in self.prog.fns and self.prog.fns[c.res].full):
                    continue
                for a in c.args:
                    if mir.is_place_operand(a):
                        cp = g.canon(mir.op_place(a))
                        if cp[0][0] == "agg":
                            st = g.stmts(cp[0][1])[cp[0][2]]
                            kd = st[2][1]
                            if kd.get("k") == "closure" and kd["def"] == f.path:
                                out.append((g, c))
        return out

    def _ptr_call_sites(self, f):
        if self._ptr_callers is None:
            self._ptr_callers = []
            for g in self.prog.full_fns():
                for c in g.calls():
                    if c.is_ptr:
                        self._ptr_callers.append((g, c))
        return [(g, c) for (g, c) in self._ptr_callers
                if len(c.args) == f.arg_count]

    # ---- field-based step ---------------------------------------------------
    def _build_agg_index(self):
        idx = {}
        writes = {}
        for g in self.prog.full_fns():
            for bb, i, pl, kd, ops, sp in g.aggregates():
                idx.setdefault((kd["adt"], kd["variant"]), []).append((g, bb, i, kd, ops))
            for bb, i, pl, rv, sp in g.assigns():
                if pl[1]:
                    last = pl[1][-1]
                    if last != "*" and last[0] == "f" and len(last) > 4 and last[4]:
                        writes.setdefault((last[4], last[5], last[1]), []).append((g, bb, i, rv))
        self._agg_index = idx
        self._field_writes = writes

    def _field_based(self, pi):
        """If pi selects a field of a crate ADT, answer from all constructions
        of that (adt, variant) in the program."""
        sel = None
        for j in range(len(pi) - 1, -1, -1):
            p = pi[j]
            if p != "*" and p[0] == "f" and len(p) > 2 and p[2] and p[2] in self.prog.adts:
                sel = j
                break
        if sel is None:
            return None
        if self._agg_index is None:
            self._build_agg_index()
        p = pi[sel]
        adt, var, fi = p[2], p[3], p[1]
        rest = pi[sel + 1:]
        out = set()
        sites = self._agg_index.get((adt, var), [])
        for (g, bb, i, kd, ops) in sites:
            if fi < len(ops):
                out |= self._operand(g, ops[fi], rest)
        for (g, bb, i, rv) in self._field_writes.get((adt, var, fi), []):
            out |= self._rvalue(g, bb, i, rv, rest)
        if not sites:
            out.add(("unknown", "no construction of %s::%s" % (adt, var)))
        return out

    # ---- LALRPOP transport bridge ---------------------------------------------
    def _grammar_bridge(self, f, n, T, rest):
        """Grammar-precise version of the bridge: the k-th (start, value, end)
        parameter of the action named by a production `L = S1 .. Sm =>
        ActionFn(N)` carries the value of Sk, i.e. the result of an action of
        a production of Sk (nonterminal) or the payload of the token Sk
        (terminal).  None when the action is not the direct action of a
        production (inner actions are reached through their wrappers) or the
        shapes do not line up — the caller then falls back on types."""
        thunk = getattr(self.prog, "grammar_thunk", None)
        if thunk is None:
            return None
        if getattr(self, "_gidx", None) is None:
            try:
                self._gidx = _prod_index(thunk())
            except Exception:
                self._gidx = ({}, {})
        by_action, by_lhs = self._gidx
        try:
            num = int(f.path.rsplit("__action", 1)[1])
        except ValueError:
            return None
        prods = by_action.get(num)
        if not prods:
            return None
        triples = [i for i in range(1, f.arg_count + 1)
                   if i < len(f.locals) and _triple_payload(f.locals[i]) is not None]
        if n not in triples:
            return None
        k = triples.index(n)
        out = set()
        for lhs, syms in prods:
            if len(syms) != len(triples):
                return None
            s = syms[k]
            if s.startswith('"'):
                gr = thunk()
                var = gr.terminals.get(s[1:-1])
                tok = self.prog.adts.get("lexer::Token")
                if var is None or not tok:
                    return None
                if self._agg_index is None:
                    self._build_agg_index()
                if T == "lexer::Token":
                    for (g, bb, i, kd, ops) in self._agg_index.get(("lexer::Token", var), []):
                        out.add(("agg", g.path, bb, i, "lexer::Token", var))
                    continue
                vinfo = [v for v in tok["variants"] if v["name"] == var]
                if not vinfo:
                    return None
                ftys = [fd["ty"] for fd in vinfo[0]["fields"]]
                for (g, bb, i, kd, ops) in self._agg_index.get(("lexer::Token", var), []):
                    if len(ftys) == 1:
                        out |= self._operand(g, ops[0], rest)
                    elif rest and rest[0] != ANY and rest[0][0] == "f" and rest[0][1] < len(ops):
                        out |= self._operand(g, ops[rest[0][1]], rest[1:])
                    else:
                        for o in ops:
                            out |= self._operand(g, o, (ANY,))
            else:
                acts = by_lhs.get(s)
                if not acts:
                    return None
                for a in sorted(acts):
                    g = self.prog.fns.get(f.path.rsplit("__action", 1)[0] + "__action%d" % a)
                    if g is None or not g.full:
                        return None
                    out |= self._local(g, 0, rest)
        return frozenset(out)

    def _lalrpop_bridge(self, f, n, pi):
        """Parameters of the generated semantic actions are (start, value,
        end) triples popped from the parser stack by generated code we do not
        model.  Assumption (trusted LALRPOP): a value of type T on the stack
        was produced by an action returning T or is the payload of a token
        whose fields have that type."""
        ty = f.locals[n] if n < len(f.locals) else ""
        m = _triple_payload(ty)
        if m is None:
            return None
        if self._is_any(pi):
            pi = (("f", 1, "", ""), ANY)
        if not pi or pi[0][0] != "f":
            return None
        if pi[0][1] != 1:
            return frozenset([("const", "location", "usize")])
        T = m
        rest = pi[1:]
        precise = self._grammar_bridge(f, n, T, rest)
        if precise is not None:
            return precise
        if getattr(self.prog, "grammar_thunk", None) is not None \
                and any(c.fn.full for c in self.prog.callers_of(f.path)):
            # an inner action: its arguments are passed by a wrapper action
            return None
        out = set()
        found = False
        for g in self.prog.full_fns(generated=True):
            if "::__action" in g.path and g.locals and g.locals[0] == T and g.path != f.path:
                found = True
                out |= self._local(g, 0, rest)
        # token payloads
        tok = self.prog.adts.get("lexer::Token")
        if tok:
            if self._agg_index is None:
                self._build_agg_index()
            for v in tok["variants"]:
                ftys = [fd["ty"] for fd in v["fields"]]
                if len(ftys) == 1 and ftys[0] == T:
                    found = True
                    for (g, bb, i, kd, ops) in self._agg_index.get(("lexer::Token", v["name"]), []):
                        out |= self._operand(g, ops[0], rest)
                elif len(ftys) > 1 and "(" + ", ".join(ftys) + ")" == T:
                    found = True
                    for (g, bb, i, kd, ops) in self._agg_index.get(("lexer::Token", v["name"]), []):
                        if rest and rest[0] != ANY and rest[0][0] == "f" and rest[0][1] < len(ops):
                            out |= self._operand(g, ops[rest[0][1]], rest[1:])
                        else:
                            for o in ops:
                                out |= self._operand(g, o, (ANY,))
        if not found:
            return None
        return frozenset(out)


def _prod_index(gr):
    """action number -> set of (lhs, tuple(symbols)) over all sub-parsers, and
    lhs -> set of action numbers."""
    by_action, by_lhs = {}, {}
    for mod in gr.mods:
        for lhs, syms, act in gr.productions(mod):
            by_action.setdefault(act, set()).add((lhs, tuple(syms)))
            by_lhs.setdefault(lhs, set()).add(act)
    return by_action, by_lhs


def _triple_payload(ty):
    """T of `(L, T, L)` where L is the location type."""
    for L in ("(usize, usize)", "usize"):
        pre, suf = "(" + L + ", ", ", " + L + ")"
        if ty.startswith(pre) and ty.endswith(suf) and len(ty) > len(pre) + len(suf):
            return ty[len(pre):-len(suf)]
    # any other location type: a 3-tuple whose first and last components agree
    if ty.startswith("(") and ty.endswith(")"):
        parts, depth, cur = [], 0, ""
        for ch in ty[1:-1]:
            if ch in "<([":
                depth += 1
            elif ch in ">)]":
                depth -= 1
            if ch == "," and depth == 0:
                parts.append(cur.strip())
                cur = ""
            else:
                cur += ch
        parts.append(cur.strip())
        if len(parts) == 3 and parts[0] == parts[2] and parts[1]:
            return parts[1]
    return None
