"""A7 (restricted) — guard relations over the operands an error names.

For a reject-side error aggregate `Error::E{f1, f2, ..}` the comparison that
guards it is extracted from the nearest dominating bool switch: its MIR
comparison operator, the edge taken towards the error, and its operands,
resolved to *variables* (locals after stripping copies) or small terms
(constants, `x - k`, `len(..)` results).  The relation is then compared with
the documented one, expressed over the error's own field names — so the anchor
is semantic (the values the diagnostic reports), not positional.
"""
import mir

NEG = {"Lt": "Ge", "Ge": "Lt", "Gt": "Le", "Le": "Gt", "Eq": "Ne", "Ne": "Eq"}
SWAP = {"Lt": "Gt", "Gt": "Lt", "Le": "Ge", "Ge": "Le", "Eq": "Eq", "Ne": "Ne"}
SYM = {"Lt": "<", "Le": "<=", "Gt": ">", "Ge": ">=", "Eq": "==", "Ne": "!="}


def _copy_root(f, local, limit=8):
    """Follow `x = move y` single definitions back to the local that was
    actually assigned."""
    for _ in range(limit):
        if 1 <= local <= f.arg_count:
            return local
        sd = f.single_def(local)
        if sd is None or sd[2] != "rv" or sd[3][0] != "use" or not mir.is_place_operand(sd[3][1]):
            return local
        pl = mir.op_place(sd[3][1])
        if pl[1]:
            return local
        local = pl[0]
    return local


def _through_aggs(f, place, limit=12):
    """Resolve a place with projections (`(*range).end`, `(r as Ok).0.start`)
    back through copies, references and the aggregates (struct, tuple or one
    enum variant) the value was built from, to the operand that supplied the
    selected component.  Returns an operand or None."""
    local, projs = place[0], [p for p in place[1] if p != "*"]
    for _ in range(limit):
        if not projs:
            return ["cp", [local, []]]
        if 1 <= local <= f.arg_count:
            return None
        ds = f.defs().get(local, [])
        if f.partial_defs().get(local):
            return None
        cand = None
        if len(ds) == 1:
            cand = ds[0]
        elif projs[0][0] == "d":
            m = [d for d in ds if d[2] == "rv" and d[3][0] == "agg" and d[3][1].get("variant") == projs[0][1]]
            if len(m) == 1 and all(d[2] == "rv" and d[3][0] == "agg" for d in ds):
                cand = m[0]
        if cand is None or cand[2] != "rv":
            return None
        rv = cand[3]
        if rv[0] in ("use", "cfd") and (rv[0] == "cfd" or mir.is_place_operand(rv[1])):
            pl = rv[1] if rv[0] == "cfd" else mir.op_place(rv[1])
            local, projs = pl[0], [p for p in pl[1] if p != "*"] + projs
            continue
        if rv[0] == "ref":
            pl = rv[2]
            local, projs = pl[0], [p for p in pl[1] if p != "*"] + projs
            continue
        if rv[0] == "agg":
            kd, aops = rv[1], rv[2]
            if kd.get("is_enum"):
                if projs[0][0] != "d" or projs[0][1] != kd.get("variant"):
                    return None
                projs = projs[1:]
            elif projs[0][0] == "d":
                return None
            if not projs or projs[0][0] != "f" or projs[0][1] >= len(aops):
                return None
            o = aops[projs[0][1]]
            projs = projs[1:]
            if not mir.is_place_operand(o):
                return o if not projs else None
            pl = mir.op_place(o)
            local, projs = pl[0], [p for p in pl[1] if p != "*"] + projs
            continue
        return None
    return None


def var_of(f, op, depth=0):
    """Resolve an operand to a term:
       ('const', v) | ('var', local) | ('sub', term, term) | ('add', term, term)
       | ('len', bb) | ('call', callee, bb) | ('field', term, idx)"""
    if depth > 12:
        return ("unknown",)
    if not mir.is_place_operand(op):
        c = mir.op_const(op)
        return ("const", f.const_value(c))
    pl = mir.op_place(op)
    local, projs = pl
    # strip a leading deref of a reference to a variable
    if projs and not all(p == "*" for p in projs):
        # a component of a value that was built from its parts in this
        # function (`Ok(start .. end)` matched later, `(*range).end`)
        if depth < 10:
            o2 = _through_aggs(f, pl)
            if o2 is not None and o2 != op and not (mir.is_place_operand(o2) and mir.op_place(o2) == pl):
                return var_of(f, o2, depth + 1)
        # payload of a `?` / Ok / Some on a call result
        import ops as _ops
        src = _ops.try_chain_source(f, op)
        if src is not None and any(p != "*" and p[0] == "d" for p in projs):
            if (src.res or "").split("::")[-1] == "len":
                return ("len", src.bb, src.argtys[0] if src.argtys else "")
            return ("call", src.res, src.bb)
        # payload of an Option local built by `Some(x)` on one path
        nd = [p for p in projs if p != "*"]
        if len(nd) == 2 and nd[0][0] == "d" and nd[1][0] == "f":
            # (also of any other enum local built by one `V(x)` per variant,
            # possibly handed on through plain copies: the result slot of an
            # inlined `arity() -> Arity`)
            src = _copy_root(f, local)
            built = [payload for (b2, i2, kind, payload) in f.defs().get(src, [])
                     if kind == "rv" and payload[0] == "agg" and payload[1].get("variant") == nd[0][1]]
            if len(built) == 1 and nd[1][1] < len(built[0][2]):
                return var_of(f, built[0][2][nd[1][1]], depth + 1)
        # field of a tuple produced by *WithOverflow: handled by caller
        base = var_of(f, ["cp", [local, []]], depth + 1)
        first = [p for p in projs if p != "*"]
        if first and first[0][0] == "f":
            if base[0] in ("sub", "add") and first[0][1] == 0:
                return base
            return ("field", base, first[0][1])
        return ("unknown",)
    if 1 <= local <= f.arg_count:
        return ("var", local)
    sd = f.single_def(local)
    if sd is None:
        return ("var", local)
    bb, idx, kind, payload = sd
    if kind == "call":
        c = payload
        name = (c.res or "").split("::")[-1]
        if name == "len":
            return ("len", c.bb, c.argtys[0] if c.argtys else "")
        return ("call", c.res, c.bb)
    rv = payload
    if rv[0] == "use":
        return var_of(f, rv[1], depth + 1)
    if rv[0] == "cfd":
        return var_of(f, ["cp", rv[1]], depth + 1)
    if rv[0] == "ref":
        return var_of(f, ["cp", rv[2]], depth + 1)
    if rv[0] == "bin":
        o = rv[1].replace("WithOverflow", "").replace("Unchecked", "")
        if o in ("Sub", "Add"):
            return (o.lower(), var_of(f, rv[2], depth + 1), var_of(f, rv[3], depth + 1))
    if rv[0] == "cast" and rv[1] in ("IntToInt",):
        return var_of(f, rv[2], depth + 1)
    return ("var", local)


def guard_of(f, bb, max_up=64):
    """Nearest dominating bool switch on a comparison that decides reaching
    block bb.  Returns (switch block, relation op holding on the way to bb,
    term a, term b, pass-edge target) or None."""
    idom = f.idoms()
    cur = bb
    steps = 0
    while cur in idom and steps < max_up:
        steps += 1
        prev = cur
        if cur == 0:
            break
        cur = idom[cur]
        if f.term(cur)["k"] != "switch":
            continue
        info = f.switch_info(cur)
        if not info or info["kind"] != "bool":
            continue
        rv = f.bool_def(info["on"])
        if not rv or rv[0] != "bin" or rv[1] not in NEG:
            continue
        t_true = info["otherwise"]
        t_false = None
        for v, tgt in info["cases"]:
            if v is True:
                t_true = tgt
            if v is False:
                t_false = tgt
        if t_false is None:
            t_false = info["otherwise"]
        if t_true == t_false:
            continue
        on_true = f.dominates(t_true, bb)
        on_false = f.dominates(t_false, bb)
        if on_true == on_false:
            continue
        op = rv[1] if on_true else NEG[rv[1]]
        other = t_false if on_true else t_true
        return (cur, op, var_of(f, rv[2]), var_of(f, rv[3]), other)
    return None


def flag_guard_of(f, bb, max_up=64):
    """Nearest dominating switch on a plain bool variable (not a comparison):
    returns (switch block, polarity towards bb, term)."""
    idom = f.idoms()
    cur = bb
    steps = 0
    while cur in idom and steps < max_up:
        steps += 1
        if cur == 0:
            break
        cur = idom[cur]
        if f.term(cur)["k"] != "switch":
            continue
        info = f.switch_info(cur)
        if not info or info["kind"] != "bool":
            continue
        rv = f.bool_def(info["on"])
        if rv and rv[0] == "bin":
            continue
        t_true = info["otherwise"]
        t_false = None
        for v, tgt in info["cases"]:
            if v is True:
                t_true = tgt
            if v is False:
                t_false = tgt
        if t_false is None:
            t_false = info["otherwise"]
        on_true = f.dominates(t_true, bb)
        on_false = f.dominates(t_false, bb)
        if on_true == on_false:
            continue
        return (cur, on_true, var_of(f, info["on"]))
    return None


def selector_guard_of(f, bb, max_up=64):
    """Like flag_guard_of, but also sees a flag that was first turned into an
    Option (`let k = if flag { Some(..) } else { None }; match k { .. }`):
    returns (flag switch block, polarity of the flag towards bb, term)."""
    g = flag_guard_of(f, bb, max_up)
    idom = f.idoms()
    cur = bb
    steps = 0
    while cur in idom and steps < max_up:
        steps += 1
        if cur == 0:
            break
        cur = idom[cur]
        if g is not None and cur == g[0]:
            return g
        if f.term(cur)["k"] != "switch":
            continue
        info = f.switch_info(cur)
        if not info or info["kind"] != "discr":
            continue
        pl = info["place"]
        if pl[1]:
            continue
        # a two-variant enum local assigned one aggregate per variant
        # (`Option` from a flag; the `Arity` an inlined accessor answers)
        src = _copy_root(f, pl[0])
        vs = []
        bad = False
        for (b2, i2, kind, payload) in f.defs().get(src, []):
            if kind == "rv" and payload[0] == "agg" and payload[1].get("is_enum"):
                vs.append((payload[1]["variant"], b2))
            else:
                bad = True
        names = sorted(set(v for v, _ in vs))
        if bad or len(vs) != 2 or len(names) != 2:
            continue
        v1 = "Some" if "Some" in names else names[0]
        v0 = [n for n in names if n != v1][0]
        some_t = dict(info["cases"]).get(v1, info["otherwise"])
        none_t = dict(info["cases"]).get(v0, info["otherwise"])
        if some_t == none_t:
            continue
        on_some, on_none = f.dominates(some_t, bb), f.dominates(none_t, bb)
        if on_some == on_none:
            continue
        sdefs = [b2 for v, b2 in vs if v == v1]
        ndefs = [b2 for v, b2 in vs if v == v0]
        if not sdefs or not ndefs or len(sdefs) != 1 or len(ndefs) != 1:
            continue
        gs, gn = flag_guard_of(f, sdefs[0]), flag_guard_of(f, ndefs[0])
        if gs and gn and gs[0] == gn[0] and gs[1] != gn[1]:
            return (gs[0], gs[1] if on_some else gn[1], gs[2])
    return g


def entry_relations(f, bb, max_blocks=24):
    """Relations that hold on each bool-comparison edge leading into the
    straight-line region that ends at bb (the disjuncts of an `a || b`
    rejection): walk backwards over non-switch blocks, stop at switches."""
    rels = []
    seen = set()
    work = [(bb, bb)]
    while work and len(seen) < max_blocks:
        cur, via = work.pop()
        for pb in f.preds(cur):
            if f.is_cleanup(pb) or (pb, cur) in seen:
                continue
            seen.add((pb, cur))
            t = f.term(pb)
            if t["k"] != "switch":
                work.append((pb, cur))
                continue
            info = f.switch_info(pb)
            if not info or info["kind"] != "bool":
                rels.append(("other", pb))
                continue
            rv = f.bool_def(info["on"])
            if not rv or rv[0] != "bin" or rv[1] not in NEG:
                rels.append(("other", pb))
                continue
            t_true = info["otherwise"]
            for v_, tgt_ in info["cases"]:
                if v_ is True:
                    t_true = tgt_
            op_ = rv[1] if t_true == cur else NEG[rv[1]]
            rels.append((op_, var_of(f, rv[2]), var_of(f, rv[3])))
    return rels


def field_terms(f, kd, aops):
    return {name: var_of(f, o) for name, o in zip(kd["fields"], aops)}


def rel_str(op, a, b):
    return "%s %s %s" % (term_str(a), SYM.get(op, op), term_str(b))


def term_str(t):
    if t[0] == "const":
        return repr(t[1])
    if t[0] == "var":
        return "_%d" % t[1]
    if t[0] in ("sub", "add"):
        return "(%s %s %s)" % (term_str(t[1]), "-" if t[0] == "sub" else "+", term_str(t[2]))
    if t[0] == "len":
        return "len@bb%d" % t[1]
    if t[0] == "call":
        return "%s@bb%d" % (t[1].split("::")[-1], t[2])
    return str(t)


def matches(rel, expected, fields):
    """rel = (op, a, b) extracted; expected = (op, X, Y) where X/Y are field
    names, ('sub', name, k), ('const', k) or ('len',) (any length term)."""
    op, a, b = rel

    def tm(spec, t):
        if isinstance(spec, str):
            return fields.get(spec) == t and t[0] != "unknown"
        if spec[0] == "const":
            return t == ("const", spec[1])
        if spec[0] == "len":
            return t[0] == "len"
        if spec[0] == "sub":
            return t[0] == "sub" and tm(spec[1], t[1]) and t[2] == ("const", spec[2])
        return False
    eop, x, y = expected
    if op == eop and tm(x, a) and tm(y, b):
        return True
    if op == SWAP[eop] and tm(x, b) and tm(y, a):
        return True
    return False
