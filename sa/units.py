"""A3 instance — byte/char unit discipline of text offsets.

Sinks are byte-offset consumers on str/String; a sink operand whose provenance
includes a character-count source is a definite unit error (a multi-byte
character before the offset mis-slices or panics)."""
import re

import mir
import prov
from framework import RuleResult

SINK_RE = re.compile(
    r"^(core::str::traits::<impl std::ops::Index<I> for str>::index|"
    r"core::str::traits::<impl std::ops::IndexMut<I> for str>::index_mut|"
    r"core::str::<impl str>::(get|get_mut|split_at|split_at_mut|is_char_boundary|get_unchecked)|"
    r"std::string::String::(truncate|insert|insert_str|drain|replace_range|split_off|remove)|"
    r"<std::string::String as std::ops::Index<I>>::index)$")


def is_char_count(c):
    res = c.res or ""
    a0 = c.argtys[0] if c.argtys else ""
    name = res.split("::")[-1]
    if name == "len" and ("std::vec::Vec<char>" in a0 or "[char]" in a0 or "VecDeque<char>" in a0):
        return True
    if name in ("count", "position", "rposition") and ("std::str::Chars" in a0 or "std::str::CharIndices" in a0):
        return True
    if name == "next" and "std::iter::Enumerate<std::str::Chars" in a0:
        return True
    return False


def is_measure(c):
    """Foreign calls producing an integer measure: provenance stops here."""
    name = (c.res or "").split("::")[-1]
    if is_char_count(c):
        return True
    if name in ("len", "count", "len_utf8", "len_utf16", "find", "rfind", "position", "capacity"):
        return True
    a0 = c.argtys[0] if c.argtys else ""
    if name == "next" and "std::str::CharIndices" in a0:
        return True
    return False


def rule_units(ctx, rule_id):
    prog = ctx.prog
    r = RuleResult(rule_id, "every offset that slices text is a byte offset "
                   "(no character count reaches a byte-offset sink)",
                   "a character count used as a byte offset mis-slices or "
                   "panics as soon as a multi-byte character precedes it")
    pv = prov.Prov(prog, terminal=is_measure)
    n = 0
    for f in prog.hand_fns():
        if f.from_expansion:
            continue
        for c in f.calls():
            if c.is_ptr or not SINK_RE.match(c.res or ""):
                continue
            n += 1
            bad = []
            unknown = False
            queries = []
            for i, a in enumerate(c.args[1:], start=1):
                ty = c.argtys[i] if i < len(c.argtys) else ""
                if ty == "usize":
                    queries.append((a, ()))
                elif ty.startswith("std::ops::Range"):
                    nf = 2 if ty.startswith(("std::ops::Range<", "std::ops::RangeInclusive<")) else 1
                    for k in range(nf):
                        queries.append((a, (("f", k, "", ""),)))
            for a, pi in queries:
                o = pv.origins(f, a, pi)
                for x in o:
                    if x[0] == "call":
                        g = prog.fns.get(x[1])
                        cc = g.call_at(x[2]) if g is not None else None
                        if cc is not None and is_char_count(cc):
                            bad.append((x[1], cc.res, cc.loc))
                    elif x[0] == "unknown":
                        unknown = True
            r.inst("%s: %s — %s" % (f.path, (c.res or "").split("::")[-1],
                                     "CHAR COUNT reaches it" if bad else ("unresolved" if unknown else "byte offsets only")))
            if bad:
                src = sorted(set((b[0], b[1].split("::")[-1]) for b in bad))
                r.fail("%s | char-count offset from=%s" % (f.path, ",".join("%s:%s" % s_ for s_ in src)),
                       "%s slices text at an offset that derives from a "
                       "character count (%s); with a multi-byte character "
                       "before it the slice is wrong or panics"
                       % (f.path, ", ".join("%s in %s at %s" % (b[1], b[0], b[2]) for b in bad[:3])),
                       where=c.loc)
            elif unknown:
                r.unproven.append("%s: offset provenance of %s not fully resolved" % (f.path, c.res))
            else:
                r.ok()
    r.require_floor("text-slicing sinks", n, 3)
    return r
