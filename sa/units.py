"""A3 instance — byte/char unit discipline of text offsets.

Sinks are byte-offset consumers on str/String; a sink operand whose provenance
includes a character-count source is a definite unit error (a multi-byte
character before the offset mis-slices or panics)."""
import re

import mir
import prov
from framework import RuleResult

SINK_RE = re.compile(
    r"^(core::str::traits::<impl std::ops::Index<I> for str>::index|"
    r"core::str::traits::<impl std::ops::IndexMut<I> for str>::index_mut|"
    r"core::str::<impl str>::(get|get_mut|split_at|split_at_mut|is_char_boundary|get_unchecked)|"
    r"std::string::String::(truncate|insert|insert_str|drain|replace_range|split_off|remove)|"
    r"<std::string::String as std::ops::Index<I>>::index)$")


def is_char_count(c):
    res = c.res or ""
    a0 = c.argtys[0] if c.argtys else ""
    name = res.split("::")[-1]
    if name == "len" and ("std::vec::Vec<char>" in a0 or "[char]" in a0 or "VecDeque<char>" in a0):
        return True
    if name in ("count", "position", "rposition") and ("std::str::Chars" in a0 or "std::str::CharIndices" in a0):
        return True
    if name == "next" and "std::iter::Enumerate<std::str::Chars" in a0:
        return True
    return False


def is_measure(c):
    """Foreign calls producing an integer measure: provenance stops here."""
    name = (c.res or "").split("::")[-1]
    if is_char_count(c):
        return True
    if name in ("len", "count", "len_utf8", "len_utf16", "find", "rfind", "position", "capacity"):
        return True
    a0 = c.argtys[0] if c.argtys else ""
    if name == "next" and "std::str::CharIndices" in a0:
        return True
    return False


def rule_units(ctx, rule_id):
    prog = ctx.prog
    r = RuleResult(rule_id, "every offset that slices text is a byte offset "
                   "(no character count reaches a byte-offset sink)",
                   "a character count used as a byte offset mis-slices or "
                   "panics as soon as a multi-byte character precedes it")
    pv = prov.Prov(prog, terminal=is_measure)
    n = 0
    for f in prog.hand_fns():
        if f.from_expansion:
            continue
        for c in f.calls():
            if c.is_ptr or not SINK_RE.match(c.res or ""):
                continue
            n += 1
            bad = []
            unknown = False
            queries = []
            for i, a in enumerate(c.args[1:], start=1):
                ty = c.argtys[i] if i < len(c.argtys) else ""
                if ty == "usize":
                    queries.append((a, ()))
                elif ty.startswith("std::ops::Range"):
                    nf = 2 if ty.startswith(("std::ops::Range<", "std::ops::RangeInclusive<")) else 1
                    for k in range(nf):
                        queries.append((a, (("f", k, "", ""),)))
            for a, pi in queries:
                o = pv.origins(f, a, pi)
                for x in o:
                    if x[0] == "call":
                        g = prog.fns.get(x[1])
                        cc = g.call_at(x[2]) if g is not None else None
                        if cc is not None and is_char_count(cc):
                            bad.append((x[1], cc.res, cc.loc))
                    elif x[0] == "unknown":
                        unknown = True
            r.inst("%s: %s — %s" % (f.path, (c.res or "").split("::")[-1],
                                     "CHAR COUNT reaches it" if bad else ("unresolved" if unknown else "byte offsets only")))
            if bad:
                src = sorted(set((b[0], b[1].split("::")[-1]) for b in bad))
                r.fail("%s | char-count offset from=%s" % (f.path, ",".join("%s:%s" % s_ for s_ in src)),
                       "%s slices text at an offset that derives from a "
                       "character count (%s); with a multi-byte character "
                       "before it the slice is wrong or panics"
                       % (f.path, ", ".join("%s in %s at %s" % (b[1], b[0], b[2]) for b in bad[:3])),
                       where=c.loc)
            elif unknown:
                r.unproven.append("%s: offset provenance of %s not fully resolved" % (f.path, c.res))
            else:
                r.ok()
    r.require_floor("text-slicing sinks", n, 3)
    # the dual: a count of *characters* (how many times a char iterator is
    # stepped) must not be fed a byte measure
    adv = char_advancers(prog)
    pvs = prov.Prov(prog, terminal=is_measure, foreign="stop")
    m = 0
    for f, k in char_count_params(prog, adv):
        for c in prog.callers_of(f.path):
            if k - 1 >= len(c.args):
                continue
            m += 1
            o = pvs.origins(c.fn, c.args[k - 1], ())
            bytes_ = []
            for x in o:
                if x[0] == "call":
                    g = prog.fns.get(x[1])
                    cc = g.call_at(x[2]) if g is not None else None
                    if cc is not None and is_measure(cc) and not is_char_count(cc) \
                            and _text_measure(cc):
                        bytes_.append((x[1], cc.res, cc.loc))
            r.inst("%s: parameter %d of %s counts characters; fed %s" % (
                c.fn.path, k, f.path, "a BYTE measure" if bytes_ else "no byte measure"))
            if bytes_:
                r.fail("%s | byte length used as a character count by=%s" % (c.fn.path, f.path.split("::")[-1]),
                       "%s passes a byte measure (%s) to %s, which steps that "
                       "many *characters*: with a multi-byte character in the "
                       "span it consumes too much text"
                       % (c.fn.path, ", ".join("%s at %s" % (b[1].split("::")[-1], b[2]) for b in bytes_[:2]), f.path),
                       where=c.loc)
            else:
                r.ok()
    r.notes.append("character-count parameters checked at %d call site(s)" % m)
    return r


def _text_measure(c):
    """A measure taken on text (str/String/char), i.e. in bytes."""
    a0 = c.argtys[0] if c.argtys else ""
    name = (c.res or "").split("::")[-1]
    if name in ("len_utf8",):
        return True
    return ("str" in a0 and "Vec" not in a0) or "std::string::String" in a0 or "CharIndices" in a0


def char_advancers(prog):
    """Functions that consume one character of text per call: they step a
    Chars/CharIndices iterator (directly, once, outside any loop)."""
    out = set()
    for f in prog.hand_fns():
        if f.is_closure or f.from_expansion:
            continue
        steps = [c for c in f.calls() if (c.declared or "").endswith("Iterator::next") and c.argtys
                 and ("std::str::Chars" in c.argtys[0] or "std::str::CharIndices" in c.argtys[0])]
        if steps and not any(f.in_any_loop(c.bb) for c in steps):
            out.add(f.path)
    return out


def char_count_params(prog, adv):
    """(function, parameter index) where the parameter bounds a counted loop
    `for _ in 0..n` whose body advances one character per iteration."""
    out = []
    for f in prog.hand_fns():
        if f.is_closure or f.from_expansion:
            continue
        loops = f.natural_loops()
        if not loops:
            continue
        for c in f.calls():
            if not (c.declared or "").endswith("Iterator::next") or not c.argtys \
                    or "std::ops::Range<usize>" not in c.argtys[0] or not f.in_any_loop(c.bb):
                continue
            body = None
            for h, b in loops.items():
                if c.bb in b and (body is None or len(b) < len(body)):
                    body = b
            if not any((not x.is_ptr) and x.res in adv and x.bb in body for x in f.calls()):
                continue
            # the range's end operand
            cp = f.canon_op(c.args[0])
            cur = cp
            for _ in range(4):
                if cur[0][0] == "call":
                    cc = f.call_at(cur[0][1])
                    if cc is None or not cc.args:
                        break
                    cur = f.canon_op(cc.args[0])
                else:
                    break
            rng = None
            if cur[0][0] == "agg":
                rng = f.stmts(cur[0][1])[cur[0][2]]
            elif cur[0][0] == "local":
                for (bb, i, kind, payload) in f.defs().get(cur[0][1], []):
                    if kind == "rv" and payload[0] == "agg" and payload[1].get("adt") == "std::ops::Range":
                        rng = ["=", None, payload]
                    elif kind == "call" and payload.args:
                        c3 = f.canon_op(payload.args[0])
                        if c3[0][0] == "agg":
                            rng = f.stmts(c3[0][1])[c3[0][2]]
            if rng is None or rng[2][1].get("adt") != "std::ops::Range" or len(rng[2][2]) != 2:
                continue
            e = f.canon_op(rng[2][2][1])
            e = [p for p in e if p not in ("&", "*")]
            if e and e[0][0] == "arg" and len(e) == 1:
                out.append((f, e[0][1]))
    return out
